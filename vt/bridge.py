"""Bridge between model trees and the library's trees.Tree (DESIGN.md §3.4, §3.5).

build():    MT -> trees.Tree using only Tree(), .children, .parent, .data
extract():  trees.Tree -> MT (reads raw attributes only, never library functions)
monitor():  well-formedness of whatever a library function returned
canon():    canonical, id-free state for explicit-state search
"""
import sys
import os
import io
import contextlib

REPO = os.environ.get('VT_REPO', '/repo')
if REPO not in sys.path:
    sys.path.insert(0, REPO)

from trees import trees as T  # noqa: E402
from . import model  # noqa: E402

CANON_FIELDS = ('label', 'edge', 'word', 'lemma', 'morph', 'num', 'head', 'split',
                'head_block', 'block_number', 'sid')


@contextlib.contextmanager
def quiet():
    """Swallow and return what the library prints."""
    out, err = io.StringIO(), io.StringIO()
    with contextlib.redirect_stdout(out), contextlib.redirect_stderr(err):
        yield out, err


def _fresh(s):
    """A string object of its own (not the interned literal the harness or the library holds): code that
    compares strings by identity is correct on literals and wrong on everything a reader delivers."""
    return (s + '\0')[:-1] if isinstance(s, str) else s


def build(mt, fill='tiger', child_order=None, constituent_fields=None):
    """Build a library tree from a model tree.

    fill='tiger': constituents get morph/lemma '--', word None (as the TIGER reader);
    fill='brackets': lemma None everywhere (as the bracket reader).
    child_order: None (model order) | 'rev' | int rotation applied to every child list.
    """
    def mk(node, parent):
        t = T.Tree(T.make_node_data())
        t.parent = parent
        if isinstance(node, int):
            tok = mt.toks[node - 1]
            t.data['word'] = _fresh(tok['word'])
            t.data['label'] = _fresh(tok['pos'])
            t.data['lemma'] = _fresh(tok.get('lemma', '--'))
            t.data['morph'] = _fresh(tok.get('morph', '--'))
            t.data['edge'] = _fresh(tok.get('edge', '--'))
            t.data['num'] = node
            if fill == 'brackets':
                t.data['lemma'] = None
        else:
            t.data['label'] = _fresh(node[0])
            t.data['edge'] = _fresh(node[1])
            t.data['morph'] = _fresh('--')
            t.data['lemma'] = None if fill == 'brackets' else _fresh('--')
            if constituent_fields:
                t.data.update(constituent_fields)
            kids = [mk(k, t) for k in node[2]]
            if child_order == 'rev':
                kids.reverse()
            elif isinstance(child_order, int) and kids:
                r = child_order % len(kids)
                kids = kids[r:] + kids[:r]
            t.children = kids
        return t
    root = mk(mt.root, None)
    root.data['sid'] = mt.sid
    return root


def raw_leaves(t):
    out = []
    stack = [t]
    while stack:
        x = stack.pop()
        if x.children:
            stack.extend(x.children)
        else:
            out.append(x)
    return out


def monitor(t, expect_n=None):
    """Well-formedness problems of the node a library function returned.
    Does not call the library.  Returns a list of strings (empty = fine)."""
    probs = []
    if t is None:
        return ['returned None']
    if not isinstance(t, T.Tree):
        return ['returned %s instead of a tree' % type(t).__name__]
    if t.parent is not None:
        probs.append('returned node is not the root (parent %r)'
                     % t.parent.data.get('label'))
    seen = {}
    order = []
    stack = [(t, None)]
    while stack:
        x, par = stack.pop()
        if id(x) in seen:
            probs.append('node %r reached twice (shared or cycle)' % x.data.get('label'))
            continue
        seen[id(x)] = x
        order.append(x)
        if par is not None and x.parent is not par:
            probs.append('child %r of %r has parent pointer %r'
                         % (x.data.get('label'), par.data.get('label'),
                            None if x.parent is None else x.parent.data.get('label')))
        if len(order) > 10000:
            probs.append('more than 10000 nodes (cycle?)')
            break
        for c in x.children:
            stack.append((c, x))
    nums = []
    for x in order:
        if not x.children:
            w, num = x.data.get('word'), x.data.get('num')
            if not isinstance(num, int) or isinstance(num, bool):
                probs.append('childless node %r has no token number' % x.data.get('label'))
                continue
            if not isinstance(w, str):
                probs.append('childless node %r has no word' % x.data.get('label'))
                continue
            nums.append(num)
    nums.sort()
    if nums != list(range(1, len(nums) + 1)):
        probs.append('token numbers are %r, not 1..%d' % (nums, len(nums)))
    if expect_n is not None and len(nums) != expect_n:
        probs.append('%d tokens, expected %d' % (len(nums), expect_n))
    return probs


def childless_constituents(t, token_ids):
    """Nodes without children that were not tokens of the input (token_ids = set of id())."""
    out = []
    stack = [t]
    seen = set()
    while stack:
        x = stack.pop()
        if id(x) in seen:
            continue
        seen.add(id(x))
        if not x.children and id(x) not in token_ids:
            out.append(x)
        stack.extend(x.children)
    return out


def extract(t, fields=('word', 'pos'), sid=True):
    """Library tree -> MT (children sorted by leftmost token).  Call only on a
    tree that passed monitor()."""
    leaves = sorted(raw_leaves(t), key=lambda x: x.data['num'])
    toks = []
    for lf in leaves:
        d = {'word': lf.data.get('word'), 'pos': lf.data.get('label')}
        for f in ('lemma', 'morph', 'edge'):
            d[f] = lf.data.get(f)
        toks.append(d)

    def rec(x):
        if not x.children:
            return x.data['num']
        kids = [rec(c) for c in x.children]
        kids.sort(key=lambda k: k if isinstance(k, int) else model.leaves(k)[0])
        return (x.data.get('label'), x.data.get('edge'), tuple(kids))
    root = rec(t)
    if isinstance(root, int):
        root = ('<bare-token>', t.data.get('edge'), (root,))
    return model.MT(t.data.get('sid'), toks, root)


_MISSING = '<absent>'


def canon(t, fields=CANON_FIELDS):
    """Canonical id-free nested tuple of a library tree (children by leftmost token)."""
    def rec(x):
        d = tuple(x.data.get(f, _MISSING) for f in fields)
        if not x.children:
            return (x.data.get('num', 0), d, ())
        kids = sorted((rec(c) for c in x.children), key=lambda k: k[0])
        return (kids[0][0], d, tuple(kids))
    return rec(t)


def parent_map(t):
    """{node key: parent key} with keys = frozenset of token numbers + label +
    rank among same-span same-label (for unary chains: depth order)."""
    out = {}

    def span(x):
        return tuple(sorted(l.data['num'] for l in raw_leaves(x)))

    def rec(x, pkey, depth):
        key = (span(x), x.data.get('label'), depth)
        out[key] = pkey
        for c in x.children:
            rec(c, key, depth + 1)
    rec(t, None, 0)
    return out


def all_nodes(t):
    out = []
    stack = [t]
    seen = set()
    while stack:
        x = stack.pop()
        if id(x) in seen:
            continue
        seen.add(id(x))
        out.append(x)
        stack.extend(x.children)
    return out


def mt_equal(a, b, tok_fields=('word', 'pos'), edges=False, labels=True, sid=False):
    """Compare two MTs on selected fields.  Returns '' or a description."""
    if sid and a.sid != b.sid:
        return 'sid %r != %r' % (a.sid, b.sid)
    if len(a.toks) != len(b.toks):
        return '%d tokens != %d tokens' % (len(a.toks), len(b.toks))
    for i, (x, y) in enumerate(zip(a.toks, b.toks)):
        for f in tok_fields:
            if x.get(f) != y.get(f):
                return 'token %d field %s: %r != %r' % (i + 1, f, x.get(f), y.get(f))

    def proj(node):
        if isinstance(node, int):
            return node
        kids = sorted((proj(k) for k in node[2]),
                      key=lambda k: k if isinstance(k, int) else k[3])
        lv = model.leaves(node)[0]
        return (node[0] if labels else '', node[1] if edges else '', tuple(kids), lv)
    pa, pb = proj(a.root), proj(b.root)
    if pa != pb:
        return 'structure/labels differ: %s != %s' % (model.mt_str(model.canon_mt(a.root)),
                                                      model.mt_str(model.canon_mt(b.root)))
    return ''


_via_counter = [0]


def build_via_export(mt, scratch_dir):
    """The same model tree, but produced by the real export reader (encode with the independent
    encoder, read with trees.treeinput.export).  Such trees carry the reader's extra data
    ('terminals' lists, 'parent_num'), so later transformations start from what users really have.
    Requires a VROOT root.  Returns the library tree."""
    from . import codecs
    from trees import treeinput
    _via_counter[0] += 1
    path = os.path.join(scratch_dir, 'via-%d-%d.export' % (os.getpid(), _via_counter[0] % 4))
    with open(path, 'w', encoding='utf-8') as f:
        f.write(codecs.encode_export([mt], version=4))
    with quiet():
        trees_ = list(treeinput.export(path, 'utf-8', quiet=True))
    os.unlink(path)
    if len(trees_) != 1:
        raise AssertionError('harness: export reader did not return exactly one tree')
    return trees_[0]


def perturb(t, mode='last'):
    """Harness-side in-place change of a live tree (only .children/.parent are touched).
    mode 'last': the last token is re-attached below the parent of the first token (or below the root
    if it is already there); mode 'first': the first token goes below the parent of the last token.
    Returns True if something moved.  Nodes left without children are pruned upwards."""
    leaves = sorted(raw_leaves(t), key=lambda x: x.data['num'])
    if len(leaves) < 2:
        return False
    mover, anchor = (leaves[-1], leaves[0]) if mode == 'last' else (leaves[0], leaves[-1])
    target = anchor.parent if anchor.parent is not mover.parent else t
    if target is mover.parent or target is None:
        return False
    old = mover.parent
    old.children = [c for c in old.children if c is not mover]
    target.children.append(mover)
    mover.parent = target
    while old is not t and not old.children:
        up = old.parent
        up.children = [c for c in up.children if c is not old]
        old.parent = None
        old = up
    return True


def build_via_tiger(mt, scratch_dir):
    """The same model tree read by the real TIGER-XML reader; when the root has a single child the
    VROOT element is left out of the file, so that the reader has to add it (edges listed in reverse)."""
    from . import codecs
    from trees import treeinput
    _via_counter[0] += 1
    path = os.path.join(scratch_dir, 'via-%d-%d.xml' % (os.getpid(), _via_counter[0] % 4))
    with open(path, 'w', encoding='utf-8') as f:
        f.write(codecs.encode_tigerxml([mt], implicit_vroot=True, edge_order='rev', nt_order='rev'))
    with quiet():
        trees_ = list(treeinput.tigerxml(path, 'utf-8', quiet=True))
    os.unlink(path)
    if len(trees_) != 1:
        raise AssertionError('harness: TIGER-XML reader did not return exactly one tree')
    return trees_[0]


def cli_options(opts):
    """The option dict as the command line produces it: every entry rendered as 'key' / 'key:value' and parsed
    by the tool's own misc.options_dict.  Expectations must be computed from `opts`, not from the result."""
    from trees import misc
    return misc.options_dict(['%s' % k if v is True else '%s:%s' % (k, v) for k, v in opts.items()])


def written_views(t, fmts=('export', 'brackets', 'discobrackets', 'tigerxml'), continuous=True):
    """The tree as users see it: written by each of the tool's writers (on a deep copy, the writers rewrite
    words) and decoded by the strict independent decoders.  Yields (format, MT or exception).  The bracket
    format numbers tokens in the order in which they are written, so a writer that emits children out of
    sentence order shows as a different structure or token sequence."""
    import io
    import copy
    from trees import treeoutput
    from . import codecs
    for fmt in fmts:
        if fmt == 'brackets' and not continuous:
            continue
        try:
            stream = io.StringIO()
            c = copy.deepcopy(t)
            getattr(treeoutput, fmt + '_begin')(stream)
            getattr(treeoutput, fmt)(c, stream)
            getattr(treeoutput, fmt + '_end')(stream)
            text = stream.getvalue()
            if fmt == 'export':
                got = codecs.decode_export(text)[0]
            elif fmt == 'tigerxml':
                got = codecs.decode_tigerxml(text)[0]
            else:
                root, toks = (codecs.decode_brackets(text) if fmt == 'brackets' else codecs.decode_discobrackets(text))[0]
                got = model.MT(None, [dict(x, lemma=None, morph=None, edge=None) for x in toks], model.canon_mt(root))
            yield fmt, got
        except Exception as e:      # reported by the caller
            yield fmt, e


_PARENS = [('(', 'LRB'), ('-LRB-', 'LRB'), ('[', 'LSB'), ('-LSB-', 'LSB'), ('{', 'LCB'), ('-LCB-', 'LCB'),
           (')', 'RRB'), ('-RRB-', 'RRB'), (']', 'RSB'), ('-RSB-', 'RSB'), ('}', 'RCB'), ('-RCB-', 'RCB')]


def _map_parens(s):
    for a, b in _PARENS:
        s = s.replace(a, b)
    return s


def compare_written(t, exp, continuous, fmts=('export', 'brackets', 'discobrackets', 'tigerxml'), root_label=True):
    """Problems (strings) between the expected MT and what each writer shows (words, tags, labels, structure;
    the bracket formats show parentheses in words and tags by their documented replacements)."""
    probs = []
    for fmt, got in written_views(t, fmts, continuous):
        if isinstance(got, Exception):
            probs.append('%s writer: %s: %s' % (fmt, type(got).__name__, got))
            continue
        e = exp
        if fmt in ('brackets', 'discobrackets'):
            e = model.MT(exp.sid, [dict(tk, word=_map_parens(tk['word']), pos=_map_parens(tk['pos'])) for tk in exp.toks], exp.root)
        if fmt == 'export' or not root_label:
            e = model.MT(e.sid, e.toks, (got.root[0], e.root[1], e.root[2]))
        d = mt_equal(e, got, tok_fields=('word', 'pos'), edges=False)
        if d:
            probs.append('%s writer shows %s' % (fmt, d))
    return probs


def build_via_brackets(mt, scratch_dir, **opts):
    """The model tree as the real bracket reader delivers it (labels as written, e.g. NP-SBJ-1; reader
    options such as gf_split as given)."""
    from . import codecs
    from trees import treeinput
    _via_counter[0] += 1
    path = os.path.join(scratch_dir, 'via-%d-%d.mrg' % (os.getpid(), _via_counter[0] % 4))
    with open(path, 'w', encoding='utf-8') as f:
        f.write(codecs.encode_brackets([mt]))
    if isinstance(mt.sid, int):
        opts.setdefault('brackets_firstid', mt.sid)         # the format has no sentence ids
    with quiet():
        trees_ = list(treeinput.brackets(path, 'utf-8', quiet=True, **opts))
    os.unlink(path)
    if len(trees_) != 1:
        raise AssertionError('harness: bracket reader did not return exactly one tree')
    return trees_[0]


def build_any(mt, order=None, **kw):
    """build() for child orders None / 'rev' / int; 'export', 'tiger', 'brackets' deliver the same model tree
    through the real reader of that format (what users really hold when they call a transformation).  The
    bracket route loses edges, lemma and morph, and needs a continuous tree; the export route needs a VROOT
    root."""
    from .runner import scratch
    if order == 'export':
        return build_via_export(mt, scratch())
    if order == 'tiger':
        return build_via_tiger(mt, scratch())
    if order == 'brackets':
        return build_via_brackets(mt, scratch())
    if order == 'written':
        # a tree object that was already written once: the export and TIGER-XML writers number the
        # constituents (data['num'] = 0, 500, 501, ...) and leave other marks on the nodes they wrote
        import io
        from trees import treeoutput
        t = build(mt, **kw)
        with quiet():
            treeoutput.export(t, io.StringIO())
        return t
    return build(mt, child_order=order, **kw)


_SEP_HISTORY = [None]


def refused_extract(mt, g, lex):
    """Part of a history: a tree the extraction must refuse - this model tree with one constituent emptied by hand (a
    childless node without a token number) - is offered to grammar.extract with the caller's grammar and lexicon.
    Returns True if the call was refused (the caller then expects grammar and lexicon to be what they were)."""
    from trees import grammar
    t = build(mt)
    stack, victim = [t], None
    while stack:
        x = stack.pop()
        if x.children and x is not t:
            victim = x
        stack.extend(x.children)
    if victim is None:
        return None
    for c in victim.children:
        c.parent = None
    victim.children = []
    with quiet():
        try:
            grammar.extract(t, g, lex)
            return False
        except Exception:
            return True


_EVENT = [0]


def process_event():
    """Part of a process history: ONE other thing that happened in the process before the call under test - rotating
    over calls the library must refuse (and that are abandoned at some depth inside it), calls on OTHER trees with
    other option values, and objects that are left unfinished.  None of them touches the objects under test; whatever
    they leave behind in the process must not reach the next call."""
    from trees import transform, grammar, treeoutput, treeinput, transitions, treeanalysis
    _EVENT[0] += 1
    k = _EVENT[0] % 14
    wide = model.MT(7, model.mk_tokens(4, words=['``', 'der', ',', 'x'], pos=['$(', 'PRELS', '$,', 'NN']),
                    ('VROOT', '--', (('S', '--', (1, ('NP', 'HD', (2,)), 3, 4)),)))
    disc = model.MT(8, model.mk_tokens(3), ('VROOT', '--', (('VP', 'HD', (1, 3)), 2)))
    with quiet():
        try:
            if k == 0:          # refused deep inside the navigation functions: a token without a number
                t = build(disc)
                del raw_leaves(t)[1].data['num']
                transform.root_attach(t)
            elif k == 1:
                refused_extract(disc, {}, {})
            elif k == 2:        # refused: a wide node without head marks, with an option
                transform.binarize(build(wide), bare_bin_labels=True)
            elif k == 3:
                transform.mark_heads_by_rules(build(wide), mark_heads_preset='nosuch')
            elif k == 4:        # refused: crossing branches in bracket output
                treeoutput.brackets(build(disc), io.StringIO())
            elif k == 5:        # legal, on another tree, with an option value
                transform.punctuation_symetrify(transform.root_attach(build(wide)), relc='PRELS')
            elif k == 6:
                transform.binarize(transform.negra_mark_heads(build(wide)), bare_bin_labels=True)
            elif k == 7:        # refused: a terminal file that does not exist
                transform.insert_terminals(build(wide), terminalfile='/nonexistent/terminals.txt')
            elif k == 8:        # refused somewhere inside binarization: a malformed linearization
                grammar.binarize({('S', 'A', 'B', 'C'): {(((0, 0), (1, 0), (2,)),): {('S1', 'ROOT1'): 1}}},
                                 reordering=grammar.reordering_optimal)
            elif k == 9:        # refused: transitions of a tree that is not binary
                transitions.topdown(transform.negra_mark_heads(build(wide)))
            elif k == 10:       # an analysis task that is never finished
                task = treeanalysis.GapDegree()
                task.run(build(disc))
            elif k == 11:       # legal, other option values
                transform.punctuation_verylow(transform.root_attach(build(wide)))
                transform.ptb_delete_traces(build(wide), keep='*T*', keepcoindex=True)
            elif k == 12:       # refused: boyd_split without head marks
                transform.boyd_split(transform.root_attach(build(disc)))
            else:               # legal: label options on another tree
                T.get_label(transform.negra_mark_heads(build(wide)).children[0], gf=True, gf_separator='#', mark_heads_marking=True)
                T.parse_label('NP#SB-1', gf_separator='#')
            _EVENT[1:] = [None]
        except Exception as e:
            _EVENT[1:] = [e]


def reader_history():
    """Part of a process history: some other corpus was read earlier with reader options of its own (gf_split with
    the separator '#', from each of the three readers in turn).  Whatever that leaves behind in the process must
    not reach later calls that do not name a separator."""
    from .runner import scratch
    from . import codecs
    from trees import treeinput
    if _SEP_HISTORY[0] is None or not all(os.path.exists(p) for p in _SEP_HISTORY[0]):
        base = os.path.join(scratch(), 'sephist-%d' % os.getpid())
        mt = model.MT(5, model.mk_tokens(2, pos=['NN#HD', 'VB']), ('VROOT', '--', (('S#OC', '--', (1, 2)),)))
        for ext, text in (('.export', codecs.encode_export([mt])), ('.xml', codecs.encode_tigerxml([mt])),
                          ('.mrg', codecs.encode_brackets([mt]))):
            with open(base + ext, 'w', encoding='utf-8') as f:
                f.write(text)
        _SEP_HISTORY[0] = [base + '.export', base + '.xml', base + '.mrg']
        _SEP_HISTORY.append(0)
    _SEP_HISTORY[1] = (_SEP_HISTORY[1] + 1) % 3
    k = _SEP_HISTORY[1]
    with quiet():
        for _ in [treeinput.export, treeinput.tigerxml, treeinput.brackets][k](_SEP_HISTORY[0][k], 'utf-8', quiet=True,
                                                                                   gf_split=True, gf_separator='#'):
            pass
    process_event()
