"""C09 Written grammar and lexicon files decode to exactly the grammar in memory."""
import os
import re
import itertools
import collections
from .. import model, codecs, cli, lcfrs
from ..runner import Result, scratch
from ..bridge import build, quiet, cli_options
from .c07 import run_binarize
from .c08 import labelings

from trees import grammar, grammaroutput, grammarinput, grammaranalysis

ID = 'C09'
LEVEL = 'exploration'
TECHNIQUE = 'bounded exhaustive enumeration of small grammars x modes x formats x options, independent decoders of PMCFG/RCG/LoPar files, CLI executed in-process'

WORDS = ['w', 'Haus', 'ärger', 'w', 'Über', 'USA', '3D', 'eMail', '#1', '#', 'caf\u00e9', 'cafe\u0301',
         # thirteenth wave: lower-case letters that casefold() rewrites (the .oc / .OC split goes by isupper())
         '\u00dfen', '\u00b5m', '\ufb01ndet']
MODES = [None,
         {'reordering': 'none', 'markov': None},
         {'reordering': 'optimal', 'markov': None},
         {'reordering': 'none', 'markov': {'v': 1, 'h': 1, 'nofanout': False}},
         {'reordering': 'optimal', 'markov': {'v': 1, 'h': 2, 'nofanout': True}},
         {'reordering': 'none', 'markov': {'v': 0, 'h': 0, 'nofanout': False}},
         {'reordering': 'none', 'markov': {'v': 2, 'h': 3, 'nofanout': False}}]


class Bad(Exception):
    pass


def plan(tier, seed):
    nmax = 4 if tier == 'quick' else 5
    chunks = [{'kind': 'api', 'n': n, 'mod': m, 'rem': r} for n, m in ((2, 1), (3, 2), (4, 16), (5, 64))
              if n <= nmax for r in range(m)]
    chunks.append({'kind': 'api-extra', 'n': 5, 'mod': 1, 'rem': 0})
    chunks += [{'kind': 'api-pairs', 'n': 3 if tier == 'quick' else 4, 'mod': 4, 'rem': r} for r in range(4)]
    chunks += [{'kind': 'cli', 'mod': 8, 'rem': r, 'n': 3 if tier == 'quick' else 4} for r in range(8)]
    return {
        'chunks': chunks + [{'kind': 'clipipe-grammar'}],
        'rule': 'grammars extracted from every labelled hierarchy (labels {A,B}, <= 1 unary) over n <= %d tokens '
                '(words incl. ambiguous, capitalised and non-ASCII ones), raw and binarized in %d modes, written as '
                'PMCFG / RCG / LoPar x lex_in_grammar on/off x {utf-8, latin-1}; two-sentence treebanks (every ordered pair of all-A hierarchies, so that one production has a continuous and a discontinuous linearization); quick: five 5-token hierarchies with interleaved discontinuous children; decoded by independent decoders '
                'and (RCG) by the tool reader; CLI `treetools grammar` from export and from RCG sources. '
                'non-trivial = distinct (grammar, mode, format, option) cases with a count > 1 or fan-out > 1' % (nmax, len(MODES) - 1),
        'bound': 'trees n <= %d; %d modes; 3 formats' % (nmax, len(MODES)),
        'exhaustive': True,
        'assumptions': ['driver differential (vt/clipipe.py): `treetools grammar` in 11 type / Markov / format / prefix combinations on a six-sentence treebank (same rule under contexts that differ at depth 1 and in fan-out only, one production with two linearizations, a five-child node with equal middle labels) must write, under the prefix given, what extraction + binarization + writer give through the library',
                        'labels and words contain no parentheses and no trailing digit; words differ from labels'],
    }


# ---------------------------------------------------------------- independent decoders
def decode_lex(text):
    lex = {}
    for ln in text.split('\n'):
        if ln == '':
            continue
        if ln.count('\t') != 1:
            raise Bad('lexicon line %r: expected word<TAB>tags' % ln)
        word, rest = ln.split('\t')
        items = rest.split(' ')
        if len(items) % 2 or word in lex:
            raise Bad('lexicon line %r malformed or word repeated' % ln)
        lex[word] = {}
        for tag, cnt in zip(items[::2], items[1::2]):
            if not cnt.isdigit() or tag in lex[word]:
                raise Bad('lexicon line %r malformed' % ln)
            lex[word][tag] = int(cnt)
    return lex


def decode_pmcfg(text):
    funs, lins, cnts, seqs = {}, {}, {}, {}
    for ln in text.split('\n'):
        if ln == '':
            continue
        if not ln.startswith(' '):
            raise Bad('line %r does not start with a blank' % ln)
        m = re.fullmatch(r' fun(\d+) : (\S+) <- (.+)', ln)
        if m:
            if m.group(1) in funs:
                raise Bad('fun%s declared twice' % m.group(1))
            funs[m.group(1)] = (m.group(2),) + tuple(m.group(3).split(' '))
            continue
        m = re.fullmatch(r' fun(\d+) =((?: s\d+)+)', ln)
        if m:
            if m.group(1) in lins:
                raise Bad('fun%s has two linearization lines' % m.group(1))
            lins[m.group(1)] = m.group(2).split()
            continue
        m = re.fullmatch(r' fun(\d+) (\d+)', ln)
        if m:
            if m.group(1) in cnts:
                raise Bad('fun%s has two count lines' % m.group(1))
            cnts[m.group(1)] = int(m.group(2))
            continue
        m = re.fullmatch(r' (s\d+) -> (.+)', ln)
        if m:
            if m.group(1) in seqs:
                raise Bad('%s defined twice' % m.group(1))
            items = m.group(2).split(' ')
            seq = []
            for it in items:
                mm = re.fullmatch(r'(\d+):(\d+)', it)
                if not mm:
                    raise Bad('sequence item %r' % it)
                seq.append((int(mm.group(1)), int(mm.group(2))))
            seqs[m.group(1)] = tuple(seq)
            continue
        raise Bad('unrecognised line %r' % ln)
    if not (set(funs) == set(lins) == set(cnts)):
        raise Bad('function ids of rule/linearization/count lines differ')
    gram = {}
    for k, func in funs.items():
        try:
            lin = tuple(seqs[s] for s in lins[k])
        except KeyError as e:
            raise Bad('fun%s refers to undefined sequence %s' % (k, e))
        d = gram.setdefault(func, {})
        if lin in d:
            raise Bad('rule %r with linearization %r written twice' % (func, lin))
        d[lin] = cnts[k]
    used = set(s for v in lins.values() for s in v)
    if used != set(seqs):
        raise Bad('sequences defined but unused: %r' % sorted(set(seqs) - used))
    return gram


def _pred(text):
    m = re.fullmatch(r'(.+?)(\d+)\((.*)\)', text)
    if not m:
        raise Bad('predicate %r' % text)
    args = m.group(3).split(',')
    arity = len(args)
    name = m.group(1) + m.group(2)
    if not name.endswith(str(arity)):
        raise Bad('predicate %r: arity suffix does not match its %d arguments' % (text, arity))
    label = name[:-len(str(arity))]
    parsed = []
    for a in args:
        vs = re.findall(r'\[(\d+)\]', a)
        if ''.join('[%s]' % v for v in vs) != a or not vs:
            raise Bad('argument %r of %r' % (a, text))
        parsed.append([int(v) for v in vs])
    return label, parsed


def decode_rcg(text):
    gram = {}
    for ln in text.split('\n'):
        if ln == '':
            continue
        parts = ln.split(' ')
        m = re.fullmatch(r'C:(\d+)', parts[0])
        if not m or len(parts) < 4 or parts[2] != '-->':
            raise Bad('rule line %r' % ln)
        count = int(m.group(1))
        lhs, lhs_args = _pred(parts[1])
        rhs = [_pred(p) for p in parts[3:]]
        where = {}
        for i, (_, args) in enumerate(rhs):
            for j, a in enumerate(args):
                if len(a) != 1 or a[0] in where:
                    raise Bad('RHS arguments must be single distinct variables: %r' % ln)
                where[a[0]] = (i, j)
        lin = []
        seen = []
        for a in lhs_args:
            arg = []
            for v in a:
                if v not in where:
                    raise Bad('variable %d of the LHS does not occur on the RHS: %r' % (v, ln))
                arg.append(where[v])
                seen.append(v)
            lin.append(tuple(arg))
        if sorted(seen) != sorted(where):
            raise Bad('LHS and RHS variables differ: %r' % ln)
        func = (lhs,) + tuple(l for l, _ in rhs)
        d = gram.setdefault(func, {})
        if tuple(lin) in d:
            raise Bad('rule %r written twice' % (func,))
        d[tuple(lin)] = count
    return gram


def decode_lopar_gram(text):
    gram = {}
    for ln in text.split('\n'):
        if ln == '':
            continue
        parts = ln.split(' ')
        if len(parts) < 3 or not parts[0].isdigit():
            raise Bad('LoPar rule line %r' % ln)
        func = tuple(parts[1:])
        lin = (tuple((i, 0) for i in range(len(func) - 1)),)
        d = gram.setdefault(func, {})
        d[lin] = d.get(lin, 0) + int(parts[0])
    return gram


def cf_normal_form(G):
    """Context-free view of a fan-out-1 grammar: RHS in the order of the linearization."""
    out = {}
    for func, lins in G.items():
        for lin, c in lins.items():
            order = [i for (i, _) in lin[0]]
            f2 = (func[0],) + tuple(func[i + 1] for i in order)
            l2 = (tuple((k, 0) for k in range(len(order))),)
            d = out.setdefault(f2, {})
            d[l2] = d.get(l2, 0) + c
    return out


def decode_counts(text):
    out = {}
    for ln in text.split('\n'):
        if ln == '':
            continue
        parts = ln.split(' ')
        if len(parts) != 2 or not parts[1].isdigit() or parts[0] in out:
            raise Bad('count line %r' % ln)
        out[parts[0]] = int(parts[1])
    return out


# ---------------------------------------------------------------- expectations
def totals(G):
    return {f: {l: sum(v.values()) for l, v in lins.items()} for f, lins in G.items()}


def with_lex_rules(G, lex):
    out = {f: dict(l) for f, l in G.items()}
    for word, tags in lex.items():
        for tag, c in tags.items():
            d = out.setdefault((tag, word), {})
            d[(((0, 0),),)] = d.get((((0, 0),),), 0) + c
    return out


def read(path, enc):
    with open(path, encoding=enc, newline='') as f:
        return f.read()


def make_bank(sh_mts):
    return sh_mts


def build_grammar(mts, mode, past=False):
    """past: the grammar has a history - after the first tree it is written as RCG files, read back with the tool's
    reader, and extraction goes on into the objects the reader returned (a grammar that was loaded and is extended)."""
    g, lex = {}, {}
    for k, mt in enumerate(mts):
        grammar.extract(build(mt), g, lex)
        if past and k == 0 and not any('(' in w or ')' in w for w in lex):
            dest = os.path.join(scratch(), 'past%d' % os.getpid())
            grammaroutput.rcg(g, lex, dest, 'utf-8')
            g, lex = grammarinput.rcg(dest, 'utf-8')
            for ext in ('rcg', 'lex'):
                if os.path.exists(dest + '.' + ext):
                    os.unlink(dest + '.' + ext)
            if len(mts) == 1:
                grammar.extract(build(mt), g, lex)      # the loaded grammar is extended by the same tree once more
    G = g if mode is None else run_binarize(g, mode)
    return G, lex


def check_write(mtjs, mode_i, fmt, lig, enc):
    mts = [model.MT.from_json(j) for j in mtjs]
    mode = MODES[mode_i]
    case = {'bank': mtjs, 'mode': mode_i, 'fmt': fmt, 'lex_in_grammar': lig, 'enc': enc}
    out = []

    def bad(kind, detail):
        out.append({'kind': kind, 'where': 'grammaroutput.' + fmt, 'case': case,
                    'detail': '%s [treebank %s, mode %r, lex_in_grammar=%s, enc=%s]'
                              % (detail, [model.mt_str(m.root, m.toks) for m in mts], mode, lig, enc),
                    'what': '%s: %s' % (fmt, kind)})
    try:
        ''.join(tk['word'] for m in mts for tk in m.toks).encode(enc)
    except UnicodeEncodeError:
        return out, False           # the encoding cannot carry these words: not a case
    past = sum(m.n() for m in mts) % 3 == 0
    try:
        G, lex = build_grammar(mts, mode, past)
    except Exception as e:
        bad('exception', 'extract/binarize: %s: %s' % (type(e).__name__, e))
        return out, False
    expG = totals(G)
    explex = {w: dict(c) for w, c in lex.items()}
    if past and mode is None:
        # the expectation for a grammar with a history comes from the treebank, not from the object
        from .. import lcfrs
        eg, elex = lcfrs.ref_extract(mts + (mts if len(mts) == 1 else []))
        want_tot = {f: {l: sum(v.values()) for l, v in lins.items()} for f, lins in eg.items()}
        if expG != want_tot and not any('(' in w or ')' in w for w in elex):
            bad('loaded-and-extended', 'a grammar written after the first tree, read back and extended holds %r, the treebank gives %r'
                % ({f: l for f, l in expG.items() if want_tot.get(f) != l}, {f: l for f, l in want_tot.items() if expG.get(f) != l}))
            return out, False
    nontriv = any(c > 1 for l in expG.values() for c in l.values()) or any(len(l) > 1 for ls in expG.values() for l in ls)
    cf = all(len(l) == 1 for ls in expG.values() for l in ls)
    dest = os.path.join(scratch(), 'g%d' % os.getpid())
    for ext in ('pmcfg', 'rcg', 'lex', 'gram', 'start', 'oc', 'OC'):
        if os.path.exists(dest + '.' + ext):
            os.unlink(dest + '.' + ext)
    if sum(m.n() for m in mts) % 2 == 1:
        # the destination files exist already, left by an earlier and larger grammar: they must be replaced
        for ext in {'pmcfg': ('pmcfg', 'lex'), 'rcg': ('rcg', 'lex'), 'lopar': ('gram', 'lex', 'start', 'oc', 'OC')}[fmt]:
            with open(dest + '.' + ext, 'w', encoding=enc) as f:
                f.write('leftover 1 of an earlier, larger grammar\n' * 400)
    # lig == 2: the option given with a value, `--dest-opts lex_in_grammar:0` (the option is a switch: present = on)
    opts = (cli_options({'lex_in_grammar': 0}) if lig == 2 else {'lex_in_grammar': True}) if lig else {}
    if sum(m.n() for m in mts) % 2 == 0:
        # non-initial state: on every other treebank the same grammar and lexicon objects were already written once,
        # in all three formats, under another prefix (a refusal of the LoPar writer is part of that history)
        prev = os.path.join(scratch(), 'prev%d' % os.getpid())
        for other in ('lopar', 'pmcfg', 'rcg'):
            try:
                getattr(grammaroutput, other)(G, lex, prev, enc)
            except Exception:
                pass
        for ext in ('pmcfg', 'rcg', 'lex', 'gram', 'start', 'oc', 'OC'):
            if os.path.exists(prev + '.' + ext):
                os.unlink(prev + '.' + ext)
    try:
        getattr(grammaroutput, fmt)(G, lex, dest, enc, **opts)
        err = None
    except Exception as e:
        err = e
    if fmt == 'lopar' and not cf:
        if err is None:
            bad('not-refused', 'a grammar with fan-out > 1 was written in LoPar format')
        return out, nontriv
    if err is not None:
        bad('exception', '%s: %s' % (type(err).__name__, err))
        return out, nontriv
    try:
        if fmt == 'pmcfg':
            got = decode_pmcfg(read(dest + '.pmcfg', enc))
        elif fmt == 'rcg':
            got = decode_rcg(read(dest + '.rcg', enc))
        else:
            got = decode_lopar_gram(read(dest + '.gram', enc))
        want = with_lex_rules(expG, explex) if (lig and fmt != 'lopar') else expG
        if fmt == 'lopar':
            want = cf_normal_form(want)
        if got != want:
            diff_a = {f: l for f, l in got.items() if want.get(f) != l}
            diff_b = {f: l for f, l in want.items() if got.get(f) != l}
            bad('grammar-file', 'file decodes to %r where the grammar has %r' % (diff_a, diff_b))
        if not (lig and fmt != 'lopar'):
            gotlex = decode_lex(read(dest + '.lex', enc))
            if gotlex != explex:
                bad('lexicon-file', 'lexicon file decodes to %r, lexicon is %r' % (gotlex, explex))
        elif os.path.exists(dest + '.lex'):
            pass
        if fmt == 'lopar':
            lhs = set(f[0] for f in expG)
            rhs = set(x for f in expG for x in f[1:])
            exp_start = {s: sum(c for f, ls in expG.items() if f[0] == s for c in ls.values()) for s in lhs - rhs}
            got_start = decode_counts(read(dest + '.start', enc))
            if got_start != exp_start:
                bad('start-file', '.start has %r, expected %r' % (got_start, exp_start))
            lo, up = collections.Counter(), collections.Counter()
            for w, tags in explex.items():
                for t, c in tags.items():
                    (up if w[0].isupper() else lo)[t] += c
            if decode_counts(read(dest + '.oc', enc)) != dict(lo):
                bad('oc-file', '.oc has %r, expected %r' % (decode_counts(read(dest + '.oc', enc)), dict(lo)))
            if decode_counts(read(dest + '.OC', enc)) != dict(up):
                bad('OC-file', '.OC has %r, expected %r' % (decode_counts(read(dest + '.OC', enc)), dict(up)))
        if fmt in ('rcg', 'pmcfg') and not cf:
            # a refused call is part of the history: the LoPar writer is asked for the same prefix, must refuse this
            # grammar, and must leave the files of the write just checked (they share <prefix>.lex) as they are
            before = {ext: open(dest + '.' + ext, 'rb').read() for ext in ('pmcfg', 'rcg', 'lex') if os.path.exists(dest + '.' + ext)}
            try:
                grammaroutput.lopar(G, lex, dest, enc)
                bad('not-refused', 'a grammar with fan-out > 1 was written in LoPar format (second write, same prefix)')
            except Exception:
                pass
            after = {ext: open(dest + '.' + ext, 'rb').read() for ext in before if os.path.exists(dest + '.' + ext)}
            if after != before:
                bad('refused-but-changed', 'a refused LoPar write to the same prefix changed the files of the %s write: %s'
                    % (fmt, ', '.join('.%s %d -> %d bytes' % (e, len(before[e]), len(after.get(e, b''))) for e in before if after.get(e) != before[e])))
        if fmt == 'rcg' and not lig:
            g2, lex2 = grammarinput.rcg(dest, enc)
            if totals(g2) != expG:
                bad('rcg-reader', 'tool reader gives %r, grammar is %r'
                    % ({f: l for f, l in totals(g2).items() if expG.get(f) != l},
                       {f: l for f, l in expG.items() if totals(g2).get(f) != l}))
            if {w: dict(c) for w, c in lex2.items()} != explex:
                bad('rcg-reader-lexicon', 'tool reader gives lexicon %r, expected %r'
                    % ({w: dict(c) for w, c in lex2.items()}, explex))
    except Bad as e:
        bad('malformed-file', str(e))
    except Exception as e:
        bad('exception', 'reading back: %s: %s' % (type(e).__name__, e))
    return out, nontriv


def check_cli(mtjs, gramtype, markov, fmt, lig):
    mts = [model.MT.from_json(j) for j in mtjs]
    case = {'cli': True, 'bank': mtjs, 'gramtype': gramtype, 'markov': markov, 'fmt': fmt, 'lex_in_grammar': lig}
    out = []

    def bad(kind, detail):
        out.append({'kind': kind, 'where': 'treetools grammar', 'case': case,
                    'detail': '%s [treebank %s, %s %r -> %s]' % (detail, [model.mt_str(m.root, m.toks) for m in mts],
                                                              gramtype, markov, fmt),
                    'what': 'treetools grammar: ' + kind})
    srcfmt = 'export'
    if not any(model.mt_tree_gap_degree(m.root) > 0 for m in mts) and lig:
        srcfmt = 'brackets'
    elif markov:
        srcfmt = 'tigerxml'
    src = os.path.join(scratch(), 'c09.' + srcfmt)
    with open(src, 'w', encoding='utf-8') as f:
        f.write({'export': codecs.encode_export, 'brackets': codecs.encode_brackets,
                 'tigerxml': codecs.encode_tigerxml}[srcfmt](mts))
    dest = os.path.join(scratch(), 'c09out')
    argv = ['grammar', src, dest, gramtype, '--dest-format', fmt, '--src-format', srcfmt]
    if markov:
        argv += ['--markov'] + markov
    if lig:
        argv += ['--dest-opts', 'lex_in_grammar']
    mode = None
    if gramtype != 'treebank':
        mo = None
        if markov:
            d = dict(x.split(':') if ':' in x else (x, True) for x in markov)
            mo = {'v': int(d.get('v', 1)), 'h': int(d.get('h', 2)), 'nofanout': 'nofanout' in d}
        mode = {'reordering': 'none' if gramtype == 'leftright' else 'optimal', 'markov': mo}
    try:
        G, lex = build_grammar(mts, mode)
        expG = totals(G)
        explex = {w: dict(c) for w, c in lex.items()}
        st, so, se, exc = cli.run(argv)
        if st != 0:
            bad('cli-failed', 'exit status %r %s' % (st, cli.describe(exc)))
            return out
        ext = {'pmcfg': 'pmcfg', 'rcg': 'rcg', 'lopar': 'gram'}[fmt]
        text = read(dest + '.' + ext, 'utf-8')
        got = {'pmcfg': decode_pmcfg, 'rcg': decode_rcg, 'lopar': decode_lopar_gram}[fmt](text)
        want = with_lex_rules(expG, explex) if (lig and fmt != 'lopar') else expG
        if fmt == 'lopar':
            want = cf_normal_form(want)
        if got != want:
            bad('grammar-file', 'CLI output decodes to %r, expected %r' % (got, want))
        if not (lig and fmt != 'lopar'):
            if decode_lex(read(dest + '.lex', 'utf-8')) != explex:
                bad('lexicon-file', 'CLI lexicon decodes to %r, expected %r' % (decode_lex(read(dest + '.lex', 'utf-8')), explex))
        # grammar file as the input of the grammar command
        if fmt == 'rcg' and not lig:
            dest2 = os.path.join(scratch(), 'c09again')
            for denc in ('utf-8', 'latin-1'):
                try:
                    ''.join(tk['word'] for m in mts for tk in m.toks).encode(denc)
                except UnicodeEncodeError:
                    continue
                st, so, se, exc = cli.run(['grammar', dest, dest2, 'treebank', '--src-format', 'rcg', '--dest-format', 'pmcfg',
                                           '--dest-enc', denc])
                if st != 0:
                    bad('cli-failed', 'grammar-file input (--dest-enc %s): exit status %r %s' % (denc, st, cli.describe(exc)))
                else:
                    got2 = decode_pmcfg(read(dest2 + '.pmcfg', denc))
                    if got2 != expG:
                        bad('grammar-input', 'using the RCG file as input (--dest-enc %s) yields %r instead of %r' % (denc, got2, expG))
                    if decode_lex(read(dest2 + '.lex', denc)) != explex:
                        bad('grammar-input-lexicon', 'lexicon %r instead of %r (--dest-enc %s)'
                            % (decode_lex(read(dest2 + '.lex', denc)), explex, denc))
    except Bad as e:
        bad('malformed-file', str(e))
    except Exception as e:
        bad('exception', '%s: %s' % (type(e).__name__, e))
    return out


def check_case(case):
    if 'grammar_run' in case:
        from .. import clipipe
        return clipipe.replay_grammar(case)
    with quiet():
        if case.get('cli'):
            return check_cli(case['bank'], case['gramtype'], case['markov'], case['fmt'], case['lex_in_grammar'])
        return check_write(case['bank'], case['mode'], case['fmt'], case['lex_in_grammar'], case['enc'])[0]


def banks(n):
    k = 0
    for sh, _ in model.shapes_with_unary(n, 1):
        for mt in labelings(sh):
            k += 1
            for i, tk in enumerate(mt.toks):
                tk['word'] = WORDS[(i + 3 * k) % len(WORDS)]
            yield [mt]


def pair_banks(n):
    """Two-sentence treebanks over all-equal labels and tags: the same bare production occurs with a
    continuous and with a discontinuous linearization, in either order."""
    pool = []
    for m in range(2, n + 1):
        for sh in model.shapes(m):
            root = model.decorate(sh, lambda p, s: 'A')
            pool.append((sh, root, m))
    for (sa, ra, na), (sb, rb, nb) in itertools.product(pool, repeat=2):
        yield [model.MT(1, model.mk_tokens(na, words=[WORDS[i % len(WORDS)] for i in range(na)], pos=['x'] * na), ra),
               model.MT(2, model.mk_tokens(nb, words=[WORDS[(i + 2) % len(WORDS)] for i in range(nb)], pos=['x'] * nb), rb)]


EXTRA_SHAPES = [((1, 4), (2, 5), 3), ((1, 3, 5), 2, 4), ((1, 4), 2, (3, 5)), ((1, 3), (2, 4), 5), (((1, 4), 2), (3, 5))]


def extra_banks():
    """Five-token trees with interleaved discontinuous children (rank-3 rules whose yield alternates)."""
    for k, sh in enumerate(EXTRA_SHAPES):
        for mt in labelings(sh):
            for i, tk in enumerate(mt.toks):
                tk['word'] = WORDS[(i + 3 * k) % len(WORDS)]
            yield [mt]
    # start symbols: a root label that also occurs below itself (and nowhere else) is not a start symbol;
    # the same root rule in several trees
    T = model.mk_tokens
    a = model.MT(1, T(3, words=['w', 'Haus', 'USA'], pos=['x', 'y', 'x']), ('VROOT', '--', (('B', '--', (1, 2)), 3)))
    b = model.MT(2, T(3, words=['w', 'Haus', 'w'], pos=['x', 'y', 'x']), ('A', '--', (('A', '--', (1, 2)), 3)))
    c = model.MT(3, T(3, words=['eMail', 'w', 'w'], pos=['x', 'y', 'x']), ('VROOT', '--', (('B', '--', (1, 2)), 3)))
    d = model.MT(4, T(2, words=['w', 'w'], pos=['x', 'y']), ('A', '--', (1, 2)))
    yield [a, b, c]
    yield [b, d]
    yield [a, c, a]
    # size probes: rules with twelve and thirteen variables (two-digit variable numbers in the grammar files)
    # ... and rules in which a discontinuous child wraps around nine to eleven sisters, so that one predicate holds a
    # one-digit and a two-digit variable ([0],[10]; [1],[11]; [0],[5],[12])
    for sh in (tuple(range(1, 13)), ((1, 3, 5, 7, 9, 11, 13), 2, 4, 6, 8, 10, 12),
               ((1, 11),) + tuple(range(2, 11)), ((1, 12),) + tuple(range(2, 12)), (1, (2, 12)) + tuple(range(3, 12)),
               ((1, 6, 13), 2, 3, 4, 5, 7, 8, 9, 10, 11, 12), ((1, 12), (2, 13)) + tuple(range(3, 12))):
        n = len(model.leaves(sh))
        yield [model.MT(1, T(n, words=[WORDS[i % 8] for i in range(n)], pos=['x' if i % 2 else 'y' for i in range(n)]),
                        model.decorate(sh, lambda p, s: 'A'))]


def run_chunk(chunk):
    if chunk.get('kind') == 'clipipe-grammar':
        from .. import clipipe
        res = Result()
        clipipe.run_grammar(res)
        return res
    res = Result()
    with quiet():
        if chunk['kind'] in ('api', 'api-pairs', 'api-extra'):
            bank = None
            gen = {'api': lambda: banks(chunk['n']), 'api-pairs': lambda: pair_banks(chunk['n']), 'api-extra': extra_banks}[chunk['kind']]
            for i, bank in enumerate(gen()):
                if i % chunk['mod'] != chunk['rem']:
                    continue
                js = [m.to_json() for m in bank]
                for mode_i in range(len(MODES)):
                    for fmt in ('pmcfg', 'rcg', 'lopar'):
                        for lig in (False, True, 2):
                            if lig == 2 and (mode_i not in (0, 2) or fmt == 'lopar'):
                                continue
                            for enc in ('utf-8', 'latin-1'):
                                if enc == 'latin-1' and (mode_i not in (0, 1) or lig):
                                    continue
                                vs, nt = check_write(js, mode_i, fmt, lig, enc)
                                res.evals += 1
                                res.nontrivial += 1 if nt else 0
                                res.outcome((tuple(m.key() for m in bank), mode_i, fmt, lig, enc, len(vs)))
                                for v in vs:
                                    res.violation(v['kind'], v['where'], v['case'], v['detail'], v['what'])
            if bank:
                res.sample({'treebank': [model.mt_str(m.root, m.toks) for m in bank], 'modes': len(MODES),
                            'formats': ['pmcfg', 'rcg', 'lopar']})
        else:
            combos = [('treebank', None), ('leftright', None), ('optimal', None), ('leftright', ['v:1', 'h:1']),
                      ('optimal', ['v:2', 'h:1', 'nofanout']), ('leftright', ['h:0'])]
            k = 0
            bank = None
            for n in range(2, chunk['n'] + 1):
                for bank in banks(n):
                    k += 1
                    if k % chunk['mod'] != chunk['rem']:
                        continue
                    js = [m.to_json() for m in bank]
                    for gramtype, markov in combos:
                        for fmt in ('pmcfg', 'rcg', 'lopar'):
                            for lig in (False, True):
                                if fmt == 'lopar' and (lig or model.mt_tree_gap_degree(bank[0].root) > 0):
                                    continue
                                vs = check_cli(js, gramtype, markov, fmt, lig)
                                res.evals += 1
                                res.nontrivial += 1
                                res.outcome((bank[0].key(), gramtype, repr(markov), fmt, lig, len(vs)))
                                for v in vs:
                                    res.violation(v['kind'], v['where'], v['case'], v['detail'], v['what'])
            if bank:
                res.sample({'cli': 'treetools grammar SRC DEST <type> --dest-format F [--markov ..] [--dest-opts lex_in_grammar]',
                            'treebank': [model.mt_str(bank[0].root, bank[0].toks)]})
    return res
