"""C04 Structural transformations preserve the sentence and tree well-formedness.

Explicit-state breadth-first search over transformation programs: a state is the canonical form of a
real library tree plus the prerequisite flags; a transition rebuilds the tree, calls the real
transformation and evaluates the step invariants."""
import collections
import itertools
import pickle
from .. import model, sweep
from ..runner import Result
from ..bridge import T, quiet, monitor, canon, all_nodes, raw_leaves, build, build_any, CANON_FIELDS, _MISSING

from trees import transform

ID = 'C04'
LEVEL = 'model_checking'
TECHNIQUE = 'explicit-state BFS over transformation programs (real functions as transition relation), step invariants on every transition'

LABELS = ['S', 'NP', 'VP', 'PP', 'CO', 'PRN']
# second labelling (edge pattern 1): the categories whose head rule has an empty priority list, both directions
LABELS_B = ['S', 'CH', 'FRAG', 'ISU', 'UCP', 'QL', 'DL', 'INTJ']
POS = ['NN', 'ART', 'VVFIN', 'APPR']
PWORDS = [',', '"', '(']

# op name -> (function name, params)
OPS = collections.OrderedDict([
    ('root_attach', ('root_attach', {})),
    ('negra_mark_heads', ('negra_mark_heads', {})),
    ('mark_heads_negra', ('mark_heads_by_rules', {'mark_heads_preset': 'negra'})),
    ('mark_heads_ptb', ('mark_heads_by_rules', {'mark_heads_preset': 'ptb'})),
    ('boyd_split', ('boyd_split', {})),
    ('raising', ('raising', {})),
    ('add_topnode', ('add_topnode', {})),
    ('punctuation_verylow', ('punctuation_verylow', {})),
    ('punctuation_symetrify', ('punctuation_symetrify', {})),
    ('punctuation_symetrify_relc', ('punctuation_symetrify', {'relc': 'ART'})),
    ('punctuation_root', ('punctuation_root', {})),
    ('binarize', ('binarize', {})),
    ('binarize_bare', ('binarize', {'bare_bin_labels': True})),
    ('collapse', ('collapse_unary_chains', {})),
    ('uncollapse', ('uncollapse_unary_chains', {})),
])
# (collapsing merges unary chains: every surviving node keeps its place among its sisters, so head marks set
# before it still count - D13)
RESTRUCTURING = {'root_attach', 'punctuation_verylow', 'punctuation_symetrify', 'punctuation_symetrify_relc',
                 'punctuation_root', 'uncollapse', 'add_topnode'}


def enabled(op, flags, bare_token):
    if bare_token:
        return op == 'uncollapse' and 'collapsed' in flags
    if op == 'boyd_split':
        return 'ra' in flags and 'heads' in flags and 'split' not in flags
    if op == 'raising':
        return 'split' in flags
    if op == 'add_topnode':
        return 'top' not in flags
    if op in ('punctuation_verylow', 'punctuation_symetrify', 'punctuation_symetrify_relc'):
        return 'ra' in flags
    if op in ('binarize', 'binarize_bare'):
        return 'heads' in flags
    if op == 'uncollapse':
        return 'collapsed' in flags
    if op == 'collapse':
        return 'collapsed' not in flags
    return True


def next_flags(op, flags):
    f = set(flags)
    if op in RESTRUCTURING:
        f.discard('heads')
    if op in ('binarize', 'binarize_bare', 'collapse', 'uncollapse'):
        # these create or merge nodes that carry no (or merged) split marks: raising is documented for
        # the tree boyd_split produced, not for one rebuilt afterwards
        f.discard('split')
    if op == 'root_attach':
        f.add('ra')
    elif op in ('negra_mark_heads', 'mark_heads_negra', 'mark_heads_ptb'):
        f.add('heads')
    elif op == 'boyd_split':
        f.add('split')
    elif op == 'raising':
        f.discard('split')
    elif op == 'add_topnode':
        f.add('top')
    elif op == 'collapse':
        f.add('collapsed')
    elif op == 'uncollapse':
        f.discard('collapsed')
    return frozenset(f)


def uncanon(c):
    """Canonical form -> fresh library tree (sound by DESIGN §3.4: only canonical fields are read)."""
    def rec(node, parent):
        _, data, kids = node
        t = T.Tree(T.make_node_data())
        for f, v in zip(CANON_FIELDS, data):
            if v != _MISSING:
                t.data[f] = v
            elif f in t.data:
                del t.data[f]
        t.parent = parent
        t.children = [rec(k, t) for k in kids]
        return t
    return rec(c, None)


def summary(t):
    """Facts about a (monitored) tree the invariants need."""
    toks = sorted(raw_leaves(t), key=lambda x: x.data['num'])
    cons = [x for x in all_nodes(t) if x.children]
    return {
        'toks': [(x.data.get('word'), x.data.get('label')) for x in toks],
        'labels': collections.Counter(x.data.get('label') for x in cons),
        'cons': cons,
        'bare': not t.children,
    }


def span_blocks(x):
    return model.blocks_of(sorted(l.data['num'] for l in raw_leaves(x)))


def components(summ):
    c = collections.Counter()
    for lab in summ['labels'].elements():
        c.update(lab.split('+'))
    for _, pos in summ['toks']:
        c.update(pos.split('+'))
    return c


def check_step(pre, op, post_tree):
    """Step invariants.  pre: summary of the pre-state (+ 'expect' for ops that need the pre tree)."""
    probs = monitor(post_tree, len(pre['toks']))
    if probs:
        return [('ill-formed', '; '.join(probs))]
    out = []
    post = summary(post_tree)
    if op == 'collapse':
        ok = len(post['toks']) == len(pre['toks']) and all(
            a[0] == b[0] and a[1].split('+')[-1] == b[1].split('+')[-1]
            for a, b in zip(pre['toks'], post['toks']))
    elif op == 'uncollapse':
        ok = len(post['toks']) == len(pre['toks']) and all(
            a[0] == b[0] and a[1].split('+')[-1] == b[1] for a, b in zip(pre['toks'], post['toks']))
    else:
        ok = pre['toks'] == post['toks']
    if not ok:
        out.append(('tokens-changed', 'token sequence %r became %r' % (pre['toks'], post['toks'])))
    exp = None
    if op == 'add_topnode':
        exp = pre['labels'] + collections.Counter(['TOP'])
    elif op == 'boyd_split':
        exp = pre['split_expect']
    elif op == 'raising':
        exp = pre['raise_expect']
    elif op in ('binarize', 'binarize_bare'):
        added = post['labels'] - pre['labels']
        lost = pre['labels'] - post['labels']
        n_exp = pre['bin_expect']
        if lost or sum(added.values()) != n_exp or any(not l.startswith('@') for l in added):
            out.append(('label-multiset', 'binarize: lost %r, added %r, expected %d added @-nodes'
                        % (dict(lost), dict(added), n_exp)))
    elif op in ('collapse', 'uncollapse'):
        if components(pre) != components(post):
            out.append(('label-multiset', '%s: +-components %r became %r'
                        % (op, dict(components(pre)), dict(components(post)))))
    else:
        exp = pre['labels']
    if exp is not None and exp != post['labels']:
        out.append(('label-multiset', '%s: constituent labels %r, expected %r'
                    % (op, dict(post['labels']), dict(exp))))
    return out


def check_split_then_raise(pre, split_tree):
    """Two-step invariant: raising directly after boyd_split removes all but one block of every
    constituent, i.e. the label multiset is the one before the split."""
    r2 = transform.raising(uncanon(canon(split_tree)))
    probs = monitor(r2, len(pre['toks']))
    if probs:
        return [('ill-formed', 'raising after boyd_split: ' + '; '.join(probs))]
    post = summary(r2)
    out = []
    if post['toks'] != pre['toks']:
        out.append(('tokens-changed', 'boyd_split+raising: token sequence %r became %r' % (pre['toks'], post['toks'])))
    if post['labels'] != pre['labels']:
        out.append(('label-multiset', 'boyd_split+raising: constituent labels %r, expected %r (one node per '
                    'constituent must survive)' % (dict(post['labels']), dict(pre['labels']))))
    return out


def check_topnode_again(pre, top_tree):
    """Two-step invariant: add_topnode adds one node on EVERY application, also on a tree whose root already is
    a TOP node (the BFS itself applies it once per path)."""
    r2 = transform.add_topnode(uncanon(canon(top_tree)))
    probs = monitor(r2, len(pre['toks']))
    if probs:
        return [('ill-formed', 'add_topnode applied twice: ' + '; '.join(probs))]
    post = summary(r2)
    exp = pre['labels'] + collections.Counter(['TOP', 'TOP'])
    out = []
    if post['toks'] != pre['toks']:
        out.append(('tokens-changed', 'add_topnode twice: token sequence %r became %r' % (pre['toks'], post['toks'])))
    if post['labels'] != exp:
        out.append(('label-multiset', 'add_topnode applied twice: constituent labels %r, expected %r' % (dict(post['labels']), dict(exp))))
    return out


def pre_summary(t):
    s = summary(t)
    se = collections.Counter()
    re_ = collections.Counter()
    nb = 0
    for x in s['cons']:
        se[x.data.get('label')] += len(span_blocks(x))
        if not (x.parent is not None and x.data.get('split') is True and x.data.get('head_block') is False):
            re_[x.data.get('label')] += 1
        nb += max(0, len(x.children) - 2)
    s['split_expect'], s['raise_expect'], s['bin_expect'] = se, re_, nb
    del s['cons']
    return s


def initial_trees(chunk):
    n = chunk['n']
    maxp = chunk['maxp']
    for sh, k in sweep.iter_shapes(chunk):
        for pattern in (0, 1):
            def lab(p, s, pattern=pattern):
                L = LABELS if pattern == 0 else LABELS_B
                return L[(sum(p) + len(p)) % len(L)]

            def edge(p, s):
                # pattern 0: first child is HD; pattern 1: no HD on constituents, tokens alternate NK/HD (heads on the right)
                return ('HD' if p[-1] == 0 else '--') if pattern == 0 else '--'
            root = model.decorate(sh, lab, edge)
            for combo in itertools.product(['w'] + PWORDS, repeat=n):
                if sum(1 for w in combo if w != 'w') > maxp:
                    continue
                if pattern == 1 and any(w != 'w' for w in combo):
                    continue
                tok_edges = ['NK' if i % 2 else '--' for i in range(n)] if pattern == 0 else \
                            ['HD' if i % 2 else 'NK' for i in range(n)]
                toks = model.mk_tokens(n, words=list(combo), pos=[POS[i % len(POS)] for i in range(n)], edge=tok_edges)
                yield model.MT(1, toks, root)


# (root_attach, the prerequisite of boyd_split, empties the gaps of a node whose gap material hangs below the
# root: the probes therefore also hold the gap material below other constituents)
MID_PROBES = [((1, 3, 5), 2, 4), ((1, 3), (2, 5), 4), ((1, 4), (2, 5), (3, 6)), ((1, 2, (3, 5)), 4, 6), ((1, 3, 5, 7), 2, 4, 6),
              ((1, 3, 5), (2, 4)), (((1, 3, 5), 2, 4),), (((1, 3, 5, 7), (2, 6), 4),)]


def probe_trees(chunk):
    """Initial states beyond the exhaustive bound: five 5-7-token hierarchies with three or more blocks /
    interleaved gaps, and the 11-13-token size probes; no punctuation, both edge patterns."""
    sh = model.sort_shape((MID_PROBES if chunk['which'] == 'mid' else model.big_shapes())[chunk['i']])
    n = len(model.leaves(sh))
    for pattern in (0, 1):
        L = LABELS if pattern == 0 else LABELS_B
        root = model.decorate(sh, lambda p, s, L=L: L[(sum(p) + len(p)) % len(L)],
                              (lambda p, s: 'HD' if p[-1] == 0 else '--') if pattern == 0 else (lambda p, s: '--'))
        tok_edges = ['NK' if i % 2 else '--' for i in range(n)] if pattern == 0 else ['HD' if i % 2 else 'NK' for i in range(n)]
        yield model.MT(1, model.mk_tokens(n, pos=[POS[i % len(POS)] for i in range(n)], edge=tok_edges,
                                          words=['w'] * n), root)


def plan(tier, seed):
    if tier == 'quick':
        specs = [(1, 2, 1, 4, 1), (2, 2, 2, 4, 1), (3, 1, 2, 4, 4), (4, 1, 1, 4, 4)]
    else:
        specs = [(1, 3, 1, 5, 1), (2, 2, 2, 5, 2), (3, 2, 2, 5, 24), (4, 1, 2, 4, 6), (5, 0, 1, 4, 1)]
    chunks = []
    for n, u, maxp, L, parts in specs:
        for c in sweep.shape_chunks([(n, u)], per_chunk=2, maxp=maxp, depth=L, tier=tier):
            for part in range(parts):
                chunks.append(dict(c, parts=parts, part=part))
    chunks += [{'kind': 'probe', 'which': 'mid', 'i': i, 'depth': 3 if tier == 'quick' else 4, 'tier': tier}
               for i in range(len(MID_PROBES))]
    chunks += [{'kind': 'probe', 'which': 'big', 'i': i, 'depth': 2 if tier == 'quick' else 3, 'tier': tier}
               for i in range(len(model.big_shapes()))]
    chunks.append({'kind': 'cli'})
    chunks.append({'kind': 'clipipe'})
    for n, u in ((2, 1), (3, 1), (4, 1)):
        for c in sweep.shape_chunks([(n, u)], per_chunk=8, maxp=1):
            chunks.append(dict(c, kind='depthprobe'))
    n6 = len(sweep.base_shapes(6, tier == 'quick', None))
    step = 25 if tier == 'quick' else 86
    chunks += [{'kind': 'punct6', 'lo': lo, 'hi': min(n6, lo + step), 'cont': tier == 'quick'} for lo in range(0, n6, step)]
    return {
        'chunks': chunks,
        'rule': 'initial states: every hierarchy over n tokens (<= u unary insertions) x every word assignment '
                'with <= p punctuation tokens from %r; transitions: %d transformation instances, enabled when '
                'their documented prerequisites hold%s; BFS to depth L with a seen-set on (canonical tree, flags); two '
                'edge-label patterns (heads left / heads right). '
                '%d programs with a root-replacing step are also run through `treetools transform --trans` with and '
                'without --split. non-trivial initial states = those with punctuation or a gap'
                % (PWORDS, len(OPS), ' (quick tier leaves out %s)' % ', '.join(QUICK_SKIP) if tier == 'quick' else '', len(CLI_PROGRAMS)),
        'bound': ', '.join('n=%d:u<=%d:p<=%d:L=%d' % s[:4] for s in specs),
        'exhaustive': True,
        'explanation': 'states = distinct (canonical tree, prerequisite flags) reached; transitions = real '
                       'transformation calls, each checked by the step invariants; traces = states without '
                       'unexplored successors (every path to them is an implementation trace)',
        'assumptions': ['driver differential (vt/clipipe.py): four structural pipelines with --params, with and without --split, must write what the named functions give when applied by the harness in the given order',
                        'beyond the bound: BFS (depth %d / %d) also from 8 fixed 5-7-token hierarchies with three blocks or interleaved gaps and from the 11-13-token size probes' % ((3, 2) if tier == 'quick' else (4, 3)),
                        'punctuation probes: every %s hierarchy over 6 tokens x every choice of 4 punctuation positions x words from {\", (}: root_attach, then each of the three punctuation re-attachments, step invariants on each (single steps, no BFS)' % ('continuous' if tier == 'quick' else ''),
                        'depth probes: %d fixed pipelines of 6-9 steps (beyond the depth bound; collapsing before and un-collapsing after a split, two rounds of split and raising, binarization inside a collapse / uncollapse pair) run step by step on live objects from every initial tree with n <= 4, u <= 1, p <= 1' % len(DEPTH_PROBES),
                        'canonical form is a sound state abstraction (DESIGN.md §3.4)',
                        'live paths: every state is also reached on LIVE objects along the path by which it was first discovered (no rebuild between steps; initial objects rotate over API-built / reversed child lists / export reader / TIGER-XML reader / written once by the export writer) and the step invariants are evaluated on every live transition, before every second of which a reader is opened on another small corpus and read to its end (export, TIGER-XML, bracket reader in turn) - one live transition per state, counted in extra.live_transitions',
                        'head marks count as present only if no restructuring happened since (prerequisite reading)',
                        'raising is enabled after boyd_split until binarize/collapse/uncollapse rebuild nodes (they carry no split marks)',
                        'a tree collapsed to a bare token only admits uncollapse'],
    }


QUICK_SKIP = ('mark_heads_ptb', 'binarize_bare', 'punctuation_symetrify_relc')


LIVE_PROVENANCE = (None, 'rev', 'export', 'tiger', 'written')


def live_initial(mt, i):
    """The live object of an initial state: the same model tree as a user may hold it - built through the API
    (two child-list orders), delivered by the export or TIGER-XML reader (nodes carry the reader's own
    bookkeeping keys), or written once by the export writer (constituents numbered)."""
    prov = LIVE_PROVENANCE[i % len(LIVE_PROVENANCE)]
    try:
        t = build_any(mt, prov)
    except Exception:       # a route that cannot carry this model tree (harness-side limitation)
        prov, t = None, build(mt)
    return prov, pickle.dumps(t, pickle.HIGHEST_PROTOCOL)


_LIVE_COUNT = [0]


def live_step(blob, op, fname, params, flags, hist, prov, res):
    """The same transition on the LIVE objects of the path by which the state was first reached (never rebuilt
    from the canonical form, so whatever earlier steps, a reader or a writer left on the nodes is still there).
    Only the step invariants of the property are evaluated.  Returns the pickled result or None."""
    lt = pickle.loads(blob)
    pre = pre_summary(lt)
    if not enabled(op, flags, pre['bare']):
        return None
    res.add_extra('live_transitions')
    try:
        from ..livepool import short_watchdog
        from ..bridge import reader_history
        # the tree is not alone in the process: before every second step a reader is opened on another (smaller) corpus
        # and read to its end - export, TIGER-XML and bracket reader in turn
        _LIVE_COUNT[0] += 1
        if _LIVE_COUNT[0] % 2:
            reader_history()
        with short_watchdog(10.0):
            r = getattr(transform, fname)(lt, **params)
        probs = check_step(pre, op, r)
    except Exception as e:
        probs = [('exception', '%s: %s' % (type(e).__name__, e))]
        r = None
    if probs:
        for kind, detail in probs:
            res.violation(kind, op, {'init': hist[0].to_json(), 'program': list(hist[1:]) + [op], 'live': prov,
                                     'flags': sorted(flags)},
                          '%s after program %s applied step by step to the same objects, from %s (provenance %s)'
                          % (detail, list(hist[1:]) + [op], model.mt_str(hist[0].root, hist[0].toks), prov or 'api'),
                          '%s on live objects: %s' % (op, kind))
        return None
    return pickle.dumps(r, pickle.HIGHEST_PROTOCOL)


def explore(inits, depth, res, skip_ops=()):
    seen = set()
    frontier = collections.deque()
    for i, mt in enumerate(inits):
        with quiet():
            t = build(mt)
        st = (canon(t), frozenset())
        if st not in seen:
            seen.add(st)
            with quiet():
                prov, blob = live_initial(mt, i)
            frontier.append((st, 0, (mt,), prov, blob))
    sample = None
    while frontier:
        (c, flags), d, hist, prov, blob = frontier.popleft()
        if d >= depth:
            res.traces += 1
            continue
        pre = pre_summary(uncanon(c))
        new_succ = 0
        for op, (fname, params) in OPS.items():
            if op in skip_ops or not enabled(op, flags, pre['bare']):
                continue
            t = uncanon(c)
            res.transitions += 1
            try:
                r = getattr(transform, fname)(t, **params)
                probs = check_step(pre, op, r)
                if op == 'boyd_split' and not probs:
                    probs = check_split_then_raise(pre, r)
                if op == 'add_topnode' and not probs:
                    probs = check_topnode_again(pre, r)
            except Exception as e:
                probs = [('exception', '%s: %s' % (type(e).__name__, e))]
                r = None
            if probs:
                for kind, detail in probs:
                    res.violation(kind, op, {'init': hist[0].to_json(), 'program': list(hist[1:]) + [op],
                                             'state': repr_state(c), 'flags': sorted(flags)},
                                  '%s after program %s from %s' % (detail, list(hist[1:]) + [op],
                                                                   model.mt_str(hist[0].root, hist[0].toks)),
                                  '%s: %s' % (op, kind))
                continue
            st = (canon(r), next_flags(op, flags))
            res.outcome(st)
            if st not in seen:
                seen.add(st)
                new_succ += 1
                nblob = live_step(blob, op, fname, params, flags, hist, prov, res) if blob is not None else None
                frontier.append((st, d + 1, hist + (op,), prov, nblob))
                if d + 1 == depth:
                    sample = {'initial': model.mt_str(hist[0].root, hist[0].toks), 'program': list(hist[1:]) + [op]}
        if not new_succ:
            res.traces += 1
    res.states += len(seen)
    if sample:
        res.sample(sample)


def punct6_cases(chunk):
    for sh in sweep.base_shapes(6, chunk.get('cont', False), None)[chunk['lo']:chunk['hi']]:
        root = model.decorate(sh, lambda p, s: LABELS[(sum(p) + len(p)) % len(LABELS)], lambda p, s: 'HD' if p[-1] == 0 else '--')
        for pos4 in itertools.combinations(range(6), 4):
            for ws in itertools.product(['"', '('], repeat=4):
                words = ['w'] * 6
                for i, w in zip(pos4, ws):
                    words[i] = w
                yield model.MT(1, model.mk_tokens(6, words=words, pos=[POS[i % len(POS)] for i in range(6)]), root)


def run_punct6(chunk, res):
    for mt in punct6_cases(chunk):
        res.evals += 1
        res.nontrivial += 1
        t0 = build(mt)
        pre0 = pre_summary(t0)
        outcome = []
        try:
            ra = transform.root_attach(t0)
            probs = check_step(pre0, 'root_attach', ra)
            res.transitions += 1
        except Exception as e:
            probs = [('exception', '%s: %s' % (type(e).__name__, e))]
        prog = ['root_attach']
        if not probs:
            c = canon(ra)
            pre = pre_summary(uncanon(c))
            for op in ('punctuation_verylow', 'punctuation_symetrify', 'punctuation_symetrify_relc', 'punctuation_root'):
                fname, params = OPS[op]
                res.transitions += 1
                try:
                    r = getattr(transform, fname)(uncanon(c), **params)
                    probs = check_step(pre, op, r)
                    outcome.append(hash(canon(r)) if not probs else None)
                except Exception as e:
                    probs = [('exception', '%s: %s' % (type(e).__name__, e))]
                if probs:
                    prog = ['root_attach', op]
                    break
        for kind, detail in probs:
            res.violation(kind, prog[-1], {'init': mt.to_json(), 'program': prog, 'flags': []},
                          '%s after program %s from %s' % (detail, prog, model.mt_str(mt.root, mt.toks)), '%s: %s' % (prog[-1], kind))
        res.outcome(tuple(outcome))
    res.states += 1


# depth probes: long pipelines beyond the depth bound of the search, run step by step on live objects (all five
# provenances) from every initial tree of the n <= 4 pool, step invariants on every step
DEPTH_PROBES = [
    ['collapse', 'root_attach', 'negra_mark_heads', 'boyd_split', 'uncollapse', 'raising'],
    ['root_attach', 'negra_mark_heads', 'boyd_split', 'raising', 'punctuation_root', 'root_attach', 'negra_mark_heads', 'boyd_split', 'raising'],
    ['add_topnode', 'root_attach', 'punctuation_verylow', 'mark_heads_negra', 'binarize', 'collapse', 'uncollapse'],
    ['root_attach', 'punctuation_symetrify', 'negra_mark_heads', 'boyd_split', 'raising', 'negra_mark_heads', 'binarize_bare', 'collapse'],
    ['collapse', 'uncollapse', 'collapse', 'root_attach', 'mark_heads_ptb', 'boyd_split', 'raising', 'uncollapse'],
]


def run_depth_probes(chunk, res):
    inits = [m for i, m in enumerate(initial_trees(chunk)) if i % chunk.get('parts', 1) == chunk.get('part', 0)]
    for i, mt in enumerate(inits):
        for program in DEPTH_PROBES:
            res.evals += 1
            res.nontrivial += 1
            prov = LIVE_PROVENANCE[(i + len(program)) % len(LIVE_PROVENANCE)]
            try:
                t = build_any(mt, prov)
            except Exception:
                prov, t = None, build(mt)
            done = []
            for op in program:
                fname, params = OPS[op]
                pre = pre_summary(t)
                if pre['bare']:
                    if op != 'uncollapse':
                        break
                res.transitions += 1
                try:
                    r = getattr(transform, fname)(t, **params)
                    probs = check_step(pre, op, r)
                except Exception as e:
                    probs = [('exception', '%s: %s' % (type(e).__name__, e))]
                done.append(op)
                if probs:
                    for kind, detail in probs:
                        res.violation(kind, op, {'init': mt.to_json(), 'program': list(done), 'live': prov, 'flags': []},
                                      '%s after program %s applied step by step to the same objects, from %s (provenance %s)'
                                      % (detail, done, model.mt_str(mt.root, mt.toks), prov or 'api'), '%s on live objects: %s' % (op, kind))
                    break
                t = r
            res.outcome((mt.key(), tuple(done)))
    res.states += 1


def repr_state(c):
    def rec(node):
        _, data, kids = node
        d = dict(zip(CANON_FIELDS, data))
        lab = d['label']
        if not kids:
            return '%s/%s@%s' % (d['word'], lab, d['num'])
        return '(' + str(lab) + ' ' + ' '.join(rec(k) for k in kids) + ')'
    return rec(c)


CLI_PROGRAMS = [['add_topnode', 'negra_mark_heads'], ['add_topnode', 'root_attach', 'punctuation_root'],
                ['negra_mark_heads', 'binarize', 'add_topnode'],
                ['root_attach', 'negra_mark_heads', 'boyd_split', 'raising', 'add_topnode']]


def check_cli(program, split):
    """The same invariants through `treetools transform --trans ...` (with and without --split): every
    written tree decodes, keeps its tokens, and has the documented label multiset."""
    import os
    import glob
    from .. import codecs, cli
    from ..runner import scratch
    shapes = [((1, 2), 3), ((1, 3), 2, 4), (1, (2, 3, 4)), (((1, 2),), 3), ((1, 2, 3, 4),)]
    mts = []
    for i, sh in enumerate(shapes):
        m = next(iter(initial_trees({'n': len(model.leaves(sh)), 'u': 0, 'lo': 0, 'hi': 0, 'maxp': 0})), None)
        root = model.decorate(sh, lambda p, s: LABELS[(sum(p) + len(p)) % len(LABELS)], lambda p, s: 'HD' if p[-1] == 0 else '--')
        n = len(model.leaves(sh))
        words = ['w%d' % (j + 1) for j in range(n)]
        if n > 2:
            words[1] = ','
        mts.append(model.MT(i + 1, model.mk_tokens(n, words=words, pos=[POS[j % len(POS)] for j in range(n)]), root))
    case = {'cli': program, 'split': split}
    out = []

    def bad(kind, detail):
        out.append({'kind': kind, 'where': 'transform --trans ' + ' '.join(program), 'case': case,
                    'detail': '%s [--split %r]' % (detail, split), 'what': 'transformations through the command line: ' + kind})
    d = scratch()
    src = os.path.join(d, 'c04.export')
    dest = os.path.join(d, 'c04.out')
    for old in glob.glob(dest + '*'):
        os.unlink(old)
    with open(src, 'w', encoding='utf-8') as f:
        f.write(codecs.encode_export(mts))
    argv = ['transform', src, dest, '--trans'] + program + (['--split', split] if split else [])
    st, so, se, exc = cli.run(argv)
    if st != 0:
        bad('cli-failed', 'exit status %r %s' % (st, cli.describe(exc)))
        return out
    files = sorted(glob.glob(dest + '.*'), key=lambda p: int(p.rsplit('.', 1)[1])) if split else [dest]
    got = []
    try:
        for fpath in files:
            got.extend(codecs.decode_export(codecs.read_out(fpath)))
    except codecs.DecodeError as e:
        bad('ill-formed', 'output does not decode: %s' % e)
        return out
    if len(got) != len(mts):
        bad('tree-count', '%d trees written for %d sentences' % (len(got), len(mts)))
        return out
    for m, g in zip(mts, got):
        toks_in = [(t['word'], t['pos']) for t in m.toks]
        toks_out = [(t['word'], t['pos']) for t in g.toks]
        collapsing = 'collapse_unary_chains' in program
        if not collapsing and toks_in != toks_out or collapsing and [w for w, _ in toks_in] != [w for w, _ in toks_out]:
            bad('tokens-changed', 'sentence %d: tokens %r became %r' % (m.sid, toks_in, toks_out))
        # the export format does not write the root's label: count the labels below it
        lab_in = collections.Counter(nd[0] for nd in model.mt_all(m.root) if not isinstance(nd, int) and nd is not m.root)
        lab_out = collections.Counter(nd[0] for nd in model.mt_all(g.root) if not isinstance(nd, int) and nd is not g.root)
        exp = lab_in + collections.Counter(['VROOT'])       # the old root is now below TOP
        n_at = sum(max(0, len(nd[2]) - 2) for nd in model.mt_all(m.root) if not isinstance(nd, int)) if 'binarize' in program else 0
        plain_out = collections.Counter({k: v for k, v in lab_out.items() if not k.startswith('@')})
        if collapsing:
            comp_in, comp_out = collections.Counter(), collections.Counter()
            for lab, c in exp.items():
                comp_in.update({x: c for x in lab.split('+')})
            for lab, c in lab_out.items():
                comp_out.update({x: c for x in lab.split('+')})
            for t in g.toks:
                comp_out.update(t['pos'].split('+')[:-1])
            if comp_in != comp_out:
                bad('label-multiset', 'sentence %d: label components %r, expected %r' % (m.sid, dict(comp_out), dict(comp_in)))
        elif plain_out != exp or sum(v for k, v in lab_out.items() if k.startswith('@')) != n_at:
            bad('label-multiset', 'sentence %d: labels below the root %r, expected %r plus %d @-nodes'
                % (m.sid, dict(lab_out), dict(exp), n_at))
    return out


def check_case(case):
    if 'clipipe' in case:
        from .. import clipipe
        return clipipe.replay(case)
    """Replay one program from its initial tree without the explorer."""
    if 'cli' in case:
        with quiet():
            return check_cli(case['cli'], case['split'])
    if 'live' in case:
        with quiet():
            mt = model.MT.from_json(case['init'])
            t = build_any(mt, case['live'])
            flags = frozenset()
            out = []
            for op in case['program']:
                fname, params = OPS[op]
                pre = pre_summary(t)
                try:
                    from ..bridge import reader_history
                    reader_history()
                    t = getattr(transform, fname)(t, **params)
                    probs = check_step(pre, op, t)
                except Exception as e:
                    probs = [('exception', '%s: %s' % (type(e).__name__, e))]
                for kind, detail in probs:
                    out.append({'kind': kind, 'where': op, 'case': case, 'detail': detail + ' (live objects)',
                                'what': '%s on live objects: %s' % (op, kind)})
                if probs:
                    return out
                flags = next_flags(op, flags)
            return out
    with quiet():
        t = uncanon(canon(build(model.MT.from_json(case['init']))))
        flags = frozenset()
        out = []
        for op in case['program']:
            fname, params = OPS[op]
            pre = pre_summary(t)
            if not enabled(op, flags, pre['bare']):
                out.append({'kind': 'replay-error', 'where': op, 'case': case,
                            'detail': 'operation not enabled on replay', 'what': 'replay'})
                return out
            try:
                r = getattr(transform, fname)(t, **params)
                probs = check_step(pre, op, r)
                if op == 'boyd_split' and not probs:
                    probs = check_split_then_raise(pre, r)
            except Exception as e:
                probs = [('exception', '%s: %s' % (type(e).__name__, e))]
            for kind, detail in probs:
                out.append({'kind': kind, 'where': op, 'case': case, 'detail': detail,
                            'what': '%s: %s' % (op, kind)})
            if probs:
                return out
            t = uncanon(canon(r))
            flags = next_flags(op, flags)
        return out


def run_chunk(chunk):
    if chunk.get('kind') == 'clipipe':
        from .. import clipipe
        res = Result()
        clipipe.run_property(ID, res)
        return res
    res = Result()
    if chunk.get('kind') == 'cli':
        with quiet():
            for program in CLI_PROGRAMS:
                for split in ('', '1#_rest', '2#_2#_rest'):
                    vs = check_cli(program, split)
                    res.evals += 1
                    res.nontrivial += 1
                    res.transitions += len(program) * 5
                    for v in vs:
                        res.violation(v['kind'], v['where'], v['case'], v['detail'], v['what'])
        res.states += 1
        res.sample({'cli': 'treetools transform SRC DEST --trans %s [--split 1#_rest]' % ' '.join(CLI_PROGRAMS[0])})
        return res
    if chunk.get('kind') == 'depthprobe':
        with quiet():
            run_depth_probes(chunk, res)
        return res
    if chunk.get('kind') == 'punct6':
        with quiet():
            run_punct6(chunk, res)
        return res
    with quiet():
        if chunk.get('kind') == 'probe':
            inits = list(probe_trees(chunk))
        else:
            inits = [m for i, m in enumerate(initial_trees(chunk)) if i % chunk.get('parts', 1) == chunk.get('part', 0)]
        res.evals = len(inits)
        res.nontrivial = sum(1 for m in inits if any(t['word'] != 'w' for t in m.toks)
                             or model.mt_tree_gap_degree(m.root) > 0)
        explore(inits, chunk['depth'], res, QUICK_SKIP if chunk.get('tier') == 'quick' else ())
    return res
