"""C10 Transition sequences are sound oracles: replaying them rebuilds the tree."""
import os
import gzip
import io
import itertools
from .. import model, sweep, codecs, cli
from ..runner import Result, scratch
from ..bridge import build, quiet, all_nodes, raw_leaves, build_any
from .c05 import assign_heads, head_choices

from trees import transitions, transitionoutput

ID = 'C10'
LEVEL = 'exploration'
TECHNIQUE = 'bounded exhaustive enumeration of head-marked shapes, emitted sequences replayed by reference shift-reduce automata'


class ReplayError(Exception):
    pass


def plan(tier, seed):
    if tier == 'quick':
        bspecs, ispecs = [(1, 2), (2, 2), (3, 2), (4, 1), (5, 1), (6, 0)], [(1, 2), (2, 2), (3, 2), (4, 1), (5, 1), (6, 0)]
    else:
        bspecs, ispecs = [(1, 3), (2, 3), (3, 2), (4, 2), (5, 1), (6, 1), (7, 0)], [(1, 3), (2, 3), (3, 2), (4, 2), (5, 2), (6, 1), (7, 0)]
    chunks = sweep.shape_chunks([s + (False, 2) for s in bspecs], per_chunk=30, big=True, kind='binary')
    chunks += sweep.shape_chunks([s + (True,) for s in ispecs], per_chunk=30, big=True, kind='inorder')
    chunks.append({'kind': 'cli', 'n': 4})
    return {
        'chunks': chunks,
        'rule': 'gap: every binary hierarchy over n tokens (discontinuous included, <= u unary insertions at every '
                'position incl. above the root and above tokens) x every head-side assignment; topdown: the '
                'continuous ones among them; inorder: every continuous hierarchy of any arity; each sequence '
                'replayed by the reference automaton of its system; writer and CLI on corpora of all binary '
                'shapes n <= 4. non-trivial = distinct (tree, system) cases with >= 2 tokens and a unary node, '
                'a gap or a right head',
        'bound': 'binary: ' + ', '.join('n=%d:u<=%d' % s for s in bspecs) + '; inorder: ' + ', '.join('n=%d:u<=%d' % s for s in ispecs),
        'exhaustive': True,
        'assumptions': ['topdown sequences are replayed right-to-left (DESIGN D1, pinned golden test)',
                        'head flags are set by the harness directly (leftmost HD child), not by the library',
                        'every tree is built twice: child lists stored in token order and reversed'],
    }


# ----------------------------------------------------------------- expected structure
def expected(mt, with_heads):
    """Canonical comparison form: leaf = int; node = (label, kids sorted by leftmost, head leftmost or None)."""
    def rec(nd):
        if isinstance(nd, int):
            return nd
        kids = [rec(k) for k in model.canon_mt(nd)[2]]
        head = None
        if with_heads and len(kids) == 2:
            edges = [mt.toks[k - 1]['edge'] if isinstance(k, int) else k[1] for k in model.canon_mt(nd)[2]]
            hi = edges.index('HD') if 'HD' in edges else 0
            head = leftmost(kids[hi])
        return (nd[0], tuple(kids), head)
    return rec(mt.root)


def leftmost(x):
    while not isinstance(x, int):
        x = x[1][0]
    return x


def mk(label, kids, head):
    kids = sorted(kids, key=lambda k: min_leaf(k))
    return (label, tuple(kids), None if head is None else min_leaf(head))


def min_leaf(x):
    if isinstance(x, int):
        return x
    return min(min_leaf(k) for k in x[1])


def set_heads(t):
    """Harness-side head flags: the child with edge HD (there is exactly one per node), root False."""
    t.data['head'] = False
    for x in all_nodes(t):
        if x.children:
            hd = [c for c in x.children if c.data['edge'] == 'HD']
            for c in x.children:
                c.data['head'] = bool(hd and c is hd[0])
            if not hd:
                first = min(x.children, key=lambda c: min(l.data['num'] for l in raw_leaves(c)))
                first.data['head'] = True
    return t


# ----------------------------------------------------------------- reference automata
def replay_gap(n, seq):
    S, D, B = [], [], list(range(1, n + 1))   # S[0], D[0] are the tops
    for tr in seq:
        if tr == 'SHIFT':
            if not B:
                raise ReplayError('SHIFT on an empty buffer')
            while D:
                S.insert(0, D.pop(0))
            D = [B.pop(0)]
        elif tr == 'GAP':
            if not S:
                raise ReplayError('GAP on an empty stack')
            D.append(S.pop(0))
        elif tr.startswith('R-LEFT-') or tr.startswith('R-RIGHT-'):
            if not S or not D:
                raise ReplayError('%s needs an item on the stack and on the deque' % tr)
            side, label = tr[2:].split('-', 1)
            s0, d0 = S.pop(0), D.pop(0)
            node = mk(label, [s0, d0], s0 if side == 'LEFT' else d0)
            while D:
                S.insert(0, D.pop(0))
            D = [node]
        elif tr.startswith('UNARY-'):
            if not D:
                raise ReplayError('UNARY on an empty deque')
            D[0] = mk(tr[6:], [D[0]], None)
        else:
            raise ReplayError('unknown transition %r' % tr)
    if B or S or len(D) != 1:
        raise ReplayError('final configuration has %d buffer, %d stack, %d deque items' % (len(B), len(S), len(D)))
    return D[0]


def replay_topdown(n, seq):
    stack, B = [], list(range(1, n + 1))
    for tr in seq:
        if tr == 'SHIFT':
            if not B:
                raise ReplayError('SHIFT on an empty buffer')
            stack.append(B.pop())           # right to left (D1)
        elif tr.startswith('UNARY-'):
            if not stack:
                raise ReplayError('UNARY on an empty stack')
            stack.append(mk(tr[6:], [stack.pop()], None))
        elif tr.startswith('BINARY-LEFT-') or tr.startswith('BINARY-RIGHT-'):
            if len(stack) < 2:
                raise ReplayError('%s with fewer than two items' % tr)
            side, label = tr[7:].split('-', 1)
            left = stack.pop()
            right = stack.pop()
            stack.append(mk(label, [left, right], left if side == 'LEFT' else right))
        else:
            raise ReplayError('unknown transition %r' % tr)
    if B or len(stack) != 1:
        raise ReplayError('final configuration has %d buffer, %d stack items' % (len(B), len(stack)))
    return stack[0]


class Marker(object):
    def __init__(self, label):
        self.label = label


def replay_inorder(n, seq):
    stack, B = [], list(range(1, n + 1))
    for tr in seq:
        if tr == 'SHIFT':
            if not B:
                raise ReplayError('SHIFT on an empty buffer')
            stack.append(B.pop(0))
        elif tr.startswith('PJ-'):
            if not stack or isinstance(stack[-1], Marker):
                raise ReplayError('%s without a first child on the stack' % tr)
            stack.append(Marker(tr[3:]))
        elif tr == 'REDUCE':
            kids = []
            while stack and not isinstance(stack[-1], Marker):
                kids.insert(0, stack.pop())
            if not stack:
                raise ReplayError('REDUCE without a projected nonterminal')
            marker = stack.pop()
            if not stack or isinstance(stack[-1], Marker):
                raise ReplayError('REDUCE: projected nonterminal has no first child')
            kids.insert(0, stack.pop())
            stack.append(mk(marker.label, kids, None))
        else:
            raise ReplayError('unknown transition %r' % tr)
    if B or len(stack) != 1 or isinstance(stack[0], (int, Marker)):
        raise ReplayError('final configuration has %d buffer, %d stack items' % (len(B), len(stack)))
    return stack[0]


REPLAY = {'gap': (replay_gap, True), 'topdown': (replay_topdown, True), 'inorder': (replay_inorder, False)}


def show(x):
    if isinstance(x, int):
        return str(x)
    return '(%s%s %s)' % (x[0], '' if x[2] is None else '[head@%d]' % x[2], ' '.join(show(k) for k in x[1]))


def check_one(mtj, system, order=None):
    mt = model.MT.from_json(mtj)
    case = {'mt': mtj, 'system': system, 'order': order}
    out = []

    def bad(kind, detail, what=None):
        out.append({'kind': kind, 'where': 'transitions.' + system, 'case': case,
                    'detail': '%s [input %s]' % (detail, model.mt_str(mt.root, mt.toks)),
                    'what': what or ('%s: %s' % (system, kind))})
    fn, with_heads = REPLAY[system]
    t = set_heads(build_any(mt, order))
    try:
        terms, trans = getattr(transitions, system)(t)
        seq = [str(x) for x in trans]
        again = [str(x) for x in trans]
        if again != seq or list(terms) != list(terms):
            bad('one-shot-result', 'the returned transition sequence reads %r the first time and %r the second time' % (seq[:6], again[:6]),
                '%s: the emitted sequence can only be read once (words and tags file written from the same result differ)' % system)
        # the tree is the caller's: asked again for the same (untouched) tree object, the system gives the same sequence
        terms2, trans2 = getattr(transitions, system)(t)
        if [str(x) for x in trans2] != seq or list(terms2) != list(terms):
            bad('second-call', 'the second call on the same tree object gives %r, the first gave %r' % ([str(x) for x in trans2][:8], seq[:8]),
                '%s: a second call on the same tree object gives another sequence' % system)
        # the result is a value: the caller goes on working with the tree (here: every constituent is relabelled in
        # place), the sequence obtained before must still read the same
        stack = [t]
        while stack:
            x = stack.pop()
            if x.children:
                x.data['label'] = 'ZZ+' + str(x.data.get('label'))
                stack.extend(x.children)
        later = [str(x) for x in trans]
        if later != seq:
            bad('result-follows-tree', 'the sequence obtained before the tree was relabelled in place reads %r afterwards (was %r)'
                % (later[:6], seq[:6]), '%s: the emitted sequence changes when the tree is changed afterwards' % system)
    except Exception as e:
        bad('exception', '%s: %s' % (type(e).__name__, e))
        return out
    exp_terms = [(tk['word'], tk['pos']) for tk in mt.toks]
    if list(terms) != exp_terms:
        bad('sentence', 'returned sentence %r, expected %r' % (terms, exp_terms))
    try:
        rebuilt = fn(mt.n(), seq)
    except ReplayError as e:
        bad('replay-stuck', '%s; sequence %s' % (e, ' '.join(seq)),
            '%s: the emitted sequence cannot be executed to completion' % system)
        return out
    exp = expected(mt, with_heads)
    if rebuilt != exp:
        bad('replay-mismatch', 'sequence %s rebuilds %s, expected %s' % (' '.join(seq), show(rebuilt), show(exp)),
            '%s: replaying the sequence does not rebuild the tree' % system)
    return out


def check_cli(system, shapes_n):
    """Corpus of all binary (continuous for topdown/inorder) shapes, through the writer and the CLI."""
    out = []
    cont = system != 'gap'
    mts = []
    for n in range(1, shapes_n + 1):
        for sh in model.shapes(n, continuous=cont, max_arity=None if system == 'inorder' else 2):
            for u in model.with_unary(sh, 1)[:3] + [sh]:
                ch = {p: (len(s) - 1) for p, s in model.nodes_of(u)}
                m = assign_heads(u, ch)
                m.sid = len(mts) + 1
                for i, tk in enumerate(m.toks):
                    tk['word'] = 'w%d_%d' % (m.sid, i + 1)
                    if (m.sid + i) % 5 == 0:
                        tk['pos'] = ['EMPTY', '--', 'VROOT'][(m.sid + i) // 5 % 3]       # default literals as real tags
                mts.append(m)
    case = {'cli': system, 'n': shapes_n}

    def bad(kind, detail):
        out.append({'kind': kind, 'where': 'transitions cli/' + system, 'case': case, 'detail': detail,
                    'what': 'transitions output file: ' + kind})
    src = os.path.join(scratch(), 'c10.export')
    with open(src, 'w', encoding='utf-8') as f:
        f.write(codecs.encode_export(mts))
    gzsrc = os.path.join(scratch(), 'c10l1.export.gz')
    with gzip.open(gzsrc, 'wb') as f:
        f.write(codecs.encode_export(mts).replace('\nw', '\nä').encode('iso-8859-1'))
    # mid-stream event: a sentence with crossing branches in the middle of a file that is otherwise continuous.  What the
    # top-down / in-order systems emit for that one sentence is not specified; the sentences after it are ordinary
    # sentences and their lines must replay like all others.
    all_mts = mts
    mixed_src = None
    if cont:
        dsh = ((1, 3), 2)
        dm = assign_heads(dsh, {p: 0 for p, s_ in model.nodes_of(dsh)})
        dm.sid = 9000
        k = len(mts) // 3
        mixed = mts[:k] + [dm] + mts[k:]
        mixed_src = os.path.join(scratch(), 'c10mixed.export')
        with open(mixed_src, 'w', encoding='utf-8') as f:
            f.write(codecs.encode_export(mixed))
    for use_pos, topnode, zipped in ((False, False, False), (True, False, False), (False, True, False), (False, False, True)) + \
            (((False, False, 'mixed'),) if cont else ()):
        mts = all_mts
        dest = os.path.join(scratch(), 'c10.%s.%d.trans' % (system, use_pos))
        argv = ['transitions', gzsrc if zipped is True else src, dest, system, '--transform', 'negra_mark_heads'] + (['add_topnode'] if topnode else [])
        if zipped == 'mixed':
            argv[1] = mixed_src
            mts = mixed
            zipped = False
        if zipped:
            argv += ['--src-enc', 'iso-8859-1']
        if use_pos:
            argv += ['--dest-opts', 'pos']
        with open(dest, 'w', encoding='utf-8') as f:
            # the destination exists already (an older, longer file): it must be replaced
            f.write('leftover ||| SHIFT of an earlier run\n' * 5000)
        st, so, se, exc = cli.run(argv)
        if st != 0:
            bad('cli-failed', 'exit status %r %s' % (st, cli.describe(exc)))
            continue
        try:
            text = codecs.read_out(dest)
        except codecs.DecodeError as e:
            bad('output-encoding', str(e))
            continue
        os.unlink(dest)
        lines = text.split('\n')
        if lines[-1] != '':
            bad('no-final-newline', repr(text[-40:]))
        lines = lines[:-1]
        if len(lines) != len(mts):
            bad('line-count', '%d lines for %d trees' % (len(lines), len(mts)))
            continue
        fn, with_heads = REPLAY[system]
        for m, ln in zip(mts, lines):
            if m.sid == 9000:
                continue        # the discontinuous sentence itself: unspecified
            if ln.count(' ||| ') != 1:
                bad('line-format', repr(ln))
                continue
            sent, seq = ln.split(' ||| ')
            exp_sent = ' '.join(tk['pos'] if use_pos else ('ä' + tk['word'][1:] if zipped else tk['word']) for tk in m.toks)
            if sent != exp_sent:
                bad('sentence', 'line has %r, expected %r' % (sent, exp_sent))
            try:
                rebuilt = fn(m.n(), seq.split(' '))
                want = expected(m, with_heads)
                if topnode:
                    want = ('TOP', (want,), None)
                if rebuilt != want:
                    bad('replay-mismatch', 'tree %s: %s' % (model.mt_str(m.root, m.toks), seq))
            except ReplayError as e:
                bad('replay-stuck', 'tree %s: %s (%s)' % (model.mt_str(m.root, m.toks), seq, e))
    mts = all_mts
    if mixed_src:
        os.unlink(mixed_src)
    # destination encodings: the same run written as utf-8, utf-16 and utf-8-sig must decode to the same text
    texts = {}
    for denc in ('utf-8', 'utf-16', 'iso-8859-1'):
        dest = os.path.join(scratch(), 'c10.%s.%s.trans' % (system, denc))
        st, so, se, exc = cli.run(['transitions', gzsrc, dest, system, '--transform', 'negra_mark_heads', '--src-enc', 'iso-8859-1',
                                   '--dest-enc', denc])
        if st != 0:
            bad('cli-failed', '--dest-enc %s: exit status %r %s' % (denc, st, cli.describe(exc)))
            continue
        try:
            texts[denc] = codecs.read_out(dest, denc)
        except codecs.DecodeError as e:
            bad('output-encoding', str(e))
        os.unlink(dest)
    for denc, text in texts.items():
        if text != texts.get('utf-8', text):
            lines_a, lines_b = texts['utf-8'].split('\n'), text.split('\n')
            k = next((i for i, (a, b) in enumerate(zip(lines_a, lines_b)) if a != b), min(len(lines_a), len(lines_b)))
            bad('output-encoding', 'written with --dest-enc %s the file decodes to other text than with utf-8: line %d is %r, not %r'
                % (denc, k + 1, lines_b[k][:60] if k < len(lines_b) else None, lines_a[k][:60] if k < len(lines_a) else None))
    # size probes beyond the bound: files of 999, 1000 and 1001 sentences (one line per tree, in file order)
    for total in (999, 1000, 1001):
        big = [model.MT(i + 1, mts[i % len(mts)].toks, mts[i % len(mts)].root) for i in range(total)]
        with open(src, 'w', encoding='utf-8') as f:
            f.write(codecs.encode_export(big))
        dest = os.path.join(scratch(), 'c10.%s.big.trans' % system)
        st, so, se, exc = cli.run(['transitions', src, dest, system, '--transform', 'negra_mark_heads'])
        if st != 0:
            bad('cli-failed', '%d sentences: exit status %r %s' % (total, st, cli.describe(exc)))
            continue
        try:
            lines = codecs.read_out(dest).split('\n')
        except codecs.DecodeError as e:
            bad('output-encoding', str(e))
            continue
        os.unlink(dest)
        if lines[-1:] != [''] or len(lines) - 1 != total:
            bad('line-count', '%d lines for a file of %d trees' % (len(lines) - 1, total))
            continue
        for i, ln in enumerate(lines[:-1]):
            want = ' '.join(tk['word'] for tk in big[i].toks)
            if ln.split(' ||| ')[0] != want:
                bad('sentence', 'line %d of %d has %r, expected %r' % (i + 1, total, ln.split(' ||| ')[0], want))
                break
    # writer called directly with a stream of (sentence, transitions) pairs
    os.unlink(src)
    os.unlink(gzsrc)
    return out, len(mts)


def check_case(case):
    with quiet():
        if 'cli' in case:
            return check_cli(case['cli'], case['n'])[0]
        return check_one(case['mt'], case['system'], case.get('order'))


def side_choices(sh):
    """Head child index for every node; only binary nodes have a real choice."""
    paths = [(p, len(s)) for p, s in model.nodes_of(sh)]
    for combo in itertools.product(*[range(k) if k == 2 else [0] for _, k in paths]):
        yield {p: c for (p, _), c in zip(paths, combo)}


def mixed_case(mt):
    """Every other constituent label in mixed case (`Vpinf01`, `Sß1` - French-treebank style categories): a label is
    data, the transition names must carry it character by character."""
    def rec(nd, depth):
        if isinstance(nd, int):
            return nd
        lab = nd[0]
        if lab.startswith('N') and depth:
            lab = ('Vpinf' if len(lab) % 2 else 'S\u00df') + lab[1:]
        return (lab, nd[1], tuple(rec(k, depth + 1) for k in nd[2]))
    return model.MT(mt.sid, mt.toks, rec(mt.root, 0))


def run_chunk(chunk):
    res = Result()
    with quiet():
        if chunk['kind'] == 'cli':
            for system in ('gap', 'topdown', 'inorder'):
                vs, ntrees = check_cli(system, chunk['n'])
                res.evals += 2 * ntrees
                res.nontrivial += ntrees
                res.outcome((system, len(vs)))
                for v in vs:
                    res.violation(v['kind'], v['where'], v['case'], v['detail'], v['what'])
            res.sample({'cli': 'treetools transitions SRC DEST {gap,topdown,inorder} --transform negra_mark_heads [--dest-opts pos]',
                        'trees_per_corpus': ntrees})
            return res
        systems = ['inorder'] if chunk['kind'] == 'inorder' else ['gap', 'topdown']
        for sh, k in sweep.iter_shapes(chunk):
            cont = model.is_continuous(sh)
            choices = [next(iter(side_choices(sh)))] if chunk['kind'] == 'inorder' else side_choices(sh)
            for choice in choices:
                mt = mixed_case(assign_heads(sh, choice))
                j = mt.to_json()
                for system in systems:
                    if system == 'topdown' and not cont:
                        continue
                    for order in (None, 'rev', 'export', 'tiger', 'written'):
                        vs = check_one(j, system, order)
                        res.evals += 1
                        if mt.n() >= 2 and (k > 0 or not cont or any(c == 1 for c in choice.values())):
                            res.nontrivial += 1
                        res.outcome((mt.key(), system, order, len(vs)))
                        for v in vs:
                            res.violation(v['kind'], v['where'], v['case'], v['detail'], v['what'])
            res.sample({'tree': model.mt_str(mt.root, mt.toks), 'systems': systems})
    return res


# --- non-initial states: the oracle of this property in every state of the live-state pool
# (vt/livepool.py: BFS over live objects; vt/liveoracles.py: the oracles)
from .. import liveoracles as _lo
_plan0, _run_chunk0, _check_case0 = plan, run_chunk, check_case


def plan(tier, seed):
    p = _plan0(tier, seed)
    p['chunks'] = list(p['chunks']) + _lo.plan_chunks(tier)
    p['assumptions'] = list(p.get('assumptions', [])) + [_lo.assumption()]
    return p


def run_chunk(chunk):
    if chunk.get('kind') == 'live':
        return _lo.run_chunk(ID, chunk, Result())
    return _run_chunk0(chunk)


def check_case(case):
    if isinstance(case, dict) and isinstance(case.get('live'), dict):
        return _lo.replay(case)
    return _check_case0(case)
