"""C01 Readers decode every well-formed treebank file faithfully.

(a) explicit-state search of the bracket reader over every lexer-class sequence up to a length
    bound (reference recursive-descent parser as oracle);
(b) bounded-exhaustive decoding of encoded corpora in all four formats, layouts and options."""
import os
import io
import gzip
import itertools
import contextlib
from .. import model, codecs, brackref
from ..runner import Result, scratch
from ..bridge import quiet, monitor, extract, mt_equal, raw_leaves, cli_options
from .c20 import ref_parse

from trees import treeinput

ID = 'C01'
LEVEL = 'model_checking'
TECHNIQUE = 'explicit-state search over lexer-class sequences of the bracket reader + bounded exhaustive corpus/layout/option sweep of all readers, independent encoders and reference parser'

TOKNAMES = ['NP-SBJ', 'S', 'x=1', 'VP-HD-2', 'w', "N'", 'A-', 'B--1']
WS_STYLES = [' ', '\n', '\t ']
CLASSES = ['(', ')', 'ws', 'tok']


# =================================================================== (a) automaton search
def render(seq, ws_style, trailing_newline):
    items, text, k = [], [], 0
    for c in seq:
        if c == 'tok':
            t = TOKNAMES[k % len(TOKNAMES)] + (str(k // len(TOKNAMES)) if k >= len(TOKNAMES) else '')
            k += 1
        elif c == 'ws':
            t = WS_STYLES[ws_style]
        else:
            t = c
        items.append((c, t))
        text.append(t)
    s = ''.join(text)
    if trailing_newline and seq and seq[-1] != 'ws':
        s += '\n'
    return items, s


def split_label(s, gf_split, sep='-'):
    if s is None:
        return None, None
    if not gf_split:
        return s, '--'
    p = ref_parse(s, sep)
    label = (p['cat'] or 'EMPTY') + ('=' + p['gap'] if p['gap'] else '') + ('-' + p['co'] if p['co'] else '') + p['head']
    return label, (p['gf'] or '--')


def expect_tree(ref, gf_split):
    """Reference tree -> comparable nested form with token numbers."""
    cnt = [0]

    def rec(nd, is_root):
        if nd[0] == 'T':
            cnt[0] += 1
            if nd[1] is None:       # emptypos terminal
                return ('T', 'EMPTY', '--', nd[2], cnt[0])
            lab, edge = split_label(nd[1], gf_split)
            return ('T', lab, edge, nd[2], cnt[0])
        if nd[1] is None:
            lab, edge = 'VROOT', None
        else:
            lab, edge = split_label(nd[1], gf_split)
        return ('N', lab, edge, [rec(k, False) for k in nd[2]])
    return rec(ref, True), cnt[0]


def got_tree(t):
    def rec(x):
        if not x.children:
            return ('T', x.data.get('label'), x.data.get('edge'), x.data.get('word'), x.data.get('num'))
        return ('N', x.data.get('label'), x.data.get('edge'), [rec(c) for c in x.children])
    return rec(t)

from ..bridge import canon as bridge_canon

SISTER = {'brackets': 'discobrackets', 'discobrackets': 'brackets', 'export': 'tigerxml', 'tigerxml': 'export'}


def run_reader(fn, path, enc, **opts):
    """Iterate a reader; returns (trees, exception or None, stdout, stderr)."""
    trees_, err = [], None
    so, se = io.StringIO(), io.StringIO()
    with contextlib.redirect_stdout(so), contextlib.redirect_stderr(se):
        try:
            for t in fn(path, enc, **opts):
                trees_.append(t)
        except Exception as e:
            err = e
    return trees_, err, so.getvalue(), se.getvalue()


def check_seq(seq, ws_style, trailing, emptypos, gf_split, firstid=None):
    items, text = render(seq, ws_style, trailing)
    case = {'seq': list(seq), 'ws': ws_style, 'nl': trailing, 'emptypos': emptypos, 'gf_split': gf_split,
            'firstid': firstid}
    out = []

    def bad(kind, detail):
        out.append({'kind': kind, 'where': 'treeinput.brackets', 'case': case,
                    'detail': '%s [file %r, emptypos=%s, gf_split=%s]' % (detail, text, emptypos, gf_split),
                    'what': 'bracket reader: ' + kind})
    path = os.path.join(scratch(), 'seq.mrg')
    with open(path, 'w', encoding='utf-8', newline='') as f:
        f.write(text)
    opts = {'quiet': True}
    if emptypos:
        opts['brackets_emptypos'] = True
    if gf_split:
        opts['gf_split'] = True
    if firstid is not None:
        opts.update(cli_options({'brackets_firstid': firstid}))     # as `--src-opts brackets_firstid:N` gives it
    ref_trees, status = brackref.parse(items, emptypos)
    trees_, err, so, se = run_reader(treeinput.brackets, path, 'utf-8', **opts)
    rejected = status != 'ok'
    if rejected:
        if not isinstance(err, ValueError):
            bad('ill-formed-accepted' if err is None else 'wrong-exception',
                'the %s is not rejected with ValueError (got %r after %d trees)'
                % ('group cut off by the end of the file' if status[0] == 'open' else 'ill-formed group', err, len(trees_)))
    elif err is not None:
        bad('well-formed-rejected', '%s: %s' % (type(err).__name__, err))
    if len(trees_) != len(ref_trees):
        bad('tree-count', '%d trees yielded, the file has %d well-formed groups%s'
            % (len(trees_), len(ref_trees), '' if not rejected else ' before the ill-formed one'))
    for k, (t, ref) in enumerate(zip(trees_, ref_trees)):
        exp, ntok = expect_tree(ref, gf_split)
        probs = monitor(t, ntok)
        if probs:
            bad('ill-formed-tree', 'tree %d: %s' % (k + 1, '; '.join(probs)))
            continue
        g = got_tree(t)
        if g != exp:
            bad('tree-mismatch', 'tree %d decoded as %r, expected %r' % (k + 1, g, exp))
        want_sid = (firstid if firstid is not None else 1) + k
        if t.data.get('sid') != want_sid:
            bad('sid', 'tree %d has sid %r, expected %d' % (k + 1, t.data.get('sid'), want_sid))
    if so or se:
        bad('not-quiet', 'quiet, but output %r %r' % (so, se))
    both_rejected = False
    if rejected and status[0] == 'error' and isinstance(err, ValueError):
        # The ValueError may be the end-of-file error rather than an error at the offending token.
        # Close every open group: a reader that overlooked the offending token now yields a tree.
        closed = text.rstrip('\n') + ')' * sum(1 for c in seq if c == '(') + '\n'
        with open(path, 'w', encoding='utf-8', newline='') as f:
            f.write(closed)
        trees2, err2, _, _ = run_reader(treeinput.brackets, path, 'utf-8', **opts)
        if isinstance(err2, ValueError) and len(trees2) == len(ref_trees):
            both_rejected = True
        else:
            case = dict(case, closed_with=closed)
            bad('ill-formed-accepted', 'the ill-formed group is decoded once the file continues: %r yields %d trees '
                'and %r (the well-formed groups before it: %d)' % (closed, len(trees2), err2, len(ref_trees)))
    return out, both_rejected, (len(ref_trees), status if status == 'ok' else status[0])


def extensions(seq):
    last = seq[-1] if seq else None
    for c in CLASSES:
        if c == last and c in ('ws', 'tok'):
            continue
        yield c


def search(prefix, maxlen, res, variants):
    """DFS over class strings extending `prefix`; every prefix is a file fed to the real reader."""
    stack = [tuple(prefix)]
    while stack:
        seq = stack.pop()
        res.states += 1
        prune = True
        outcome = None
        for (ws_style, trailing, emptypos, gf_split) in variants:
            vs, both_rej, outcome = check_seq(seq, ws_style, trailing, emptypos, gf_split)
            res.evals += 1
            for v in vs:
                res.violation(v['kind'], v['where'], v['case'], v['detail'], v['what'])
            if not both_rej:
                prune = False
        res.outcome((seq, outcome))
        if outcome and outcome[0] >= 1:
            res.nontrivial += 1
        if len(seq) >= maxlen:
            res.traces += 1
            continue
        if prune:
            # reference and implementation have both rejected this prefix with an error at a token:
            # the automaton is deterministic and left-to-right, every extension is rejected too
            res.extra['pruned_subtrees'] = res.extra.get('pruned_subtrees', 0) + 1
            res.traces += 1
            continue
        for c in extensions(seq):
            res.transitions += 1
            stack.append(seq + (c,))
    return res


# =================================================================== (b) corpora
WORDS = ['a', ',', '&', '<', '"', "'", 'ä', '日', '#', '-LRB-', '*T*-1', 'b', '#7', '#12', '#1234',
         '&amp;', 'cafe\u0301', '%', '%5', '-RSB-', '\u212b']
LABELS = ['NP-SBJ-1', 'NP=2', 'S', 'VP-HD', 'PP', "AP'", 'APPR-', 'NX--3']


def pool():
    """One tree per feature (DESIGN §4 C01 (b))."""
    shs = [((1, 3), 2),                 # discontinuous
           ((1, 3, 5), 2, 4),           # two gaps in one node
           (((1,),),),                  # unary chain, one token
           (1,),                        # one token
           (1, 2, 3),                   # flat root
           ((1, 2), (3, (4, 5))),       # continuous, nested
           (((1, 4), 2), 3),            # gap at a lower level
           ((1, (2,)), 3)]              # unary above a token
    out = []
    for i, sh in enumerate(shs):
        out.append(decorated(sh, i, sid=[7, 3, 3, 12, 100, 101, 0, 6][i]))
    return out


def decorated(sh, salt, sid):
    n = len(model.leaves(sh))
    edges = ['HD', 'NK', '--', 'SB']
    root = model.decorate(sh, lambda p, s: LABELS[(sum(p) + len(p) + salt) % len(LABELS)],
                          lambda p, s: edges[(sum(p) + salt) % len(edges)])
    toks = model.mk_tokens(n, words=[WORDS[(salt * 3 + i) % len(WORDS)] for i in range(n)],
                           pos=['P%d' % ((i + salt) % 3) for i in range(n)],
                           lemma=['l%d' % i for i in range(n)], morph=['3' if (i + salt) % 3 == 0 else 'm%d.x' % i for i in range(n)],
                           edge=[edges[(i + salt) % len(edges)] for i in range(n)])
    return model.MT(sid, toks, root)


def nbsp_corpus():
    """Words with a no-break space / ideographic space inside: one token for the bracket lexer (ASCII
    whitespace separates), not representable in export (fields are split on any whitespace)."""
    m = decorated(((1, 2), 3), 5, sid=1)
    toks = [dict(t) for t in m.toks]
    toks[0]['word'] = u'10\u00a0000'
    toks[2]['word'] = u'x\u3000y'
    return [model.MT(1, toks, m.root)]


def corpora(tier):
    P = pool()
    out = [[m] for m in P]
    kmax = 2 if tier == 'quick' else 3
    idx = range(len(P))
    for k in range(2, kmax + 1):
        for combo in itertools.product(idx, repeat=k):
            if k == 3 and (combo[0] + combo[1] + combo[2]) % 4:
                continue
            out.append([P[i] for i in combo])
    for n in range(1, 4 if tier == 'quick' else 5):
        for si, (sh, _) in enumerate(model.shapes_with_unary(n, 1)):
            out.append([decorated(sh, si, sid=si + 1)])
    # size probes beyond the bound: sentences with 11-13 tokens (two-digit positions, ten children, depth 11)
    for si, sh in enumerate(model.big_shapes()):
        out.append([decorated(sh, si, sid=20 + si)])
    return out


EXPORT_LAYOUTS = [dict(), dict(version=4), dict(header=True), dict(comments=True), dict(secedges=True),
                  dict(numbering='rev'), dict(numbering=('perm', 1)), dict(line_order='rev'), dict(layout='single'),
                  dict(layout='spaces'), dict(bos_extra=True),
                  dict(version=4, header=True, comments=True, secedges=True, numbering='rev', line_order='rev')]
BRACKET_LAYOUTS = [dict(), dict(layout='spaced'), dict(layout='airy'), dict(layout='indented'), dict(layout='oneline'),
                   dict(empty_root=True), dict(trailing_newline=False), dict(lead='junk text ) more\n'),
                   dict(between=')'), dict(layout='indented', between=' ) junk'),
                   dict(layout='indented', empty_root=True)]
DISCO_LAYOUTS = [dict(), dict(layout='spaced'), dict(raw_parens=True)]
TIGER_LAYOUTS = [dict(), dict(nt_order='pre'), dict(nt_order='rev'), dict(edge_order='rev'), dict(edge_order='rot'),
                 dict(attr_order='rev'), dict(secedges=True), dict(id_style='s'), dict(id_style='under'), dict(id_style='suffix'), dict(id_style='ext'),
                 dict(implicit_vroot=True), dict(head=True),
                 dict(nt_order='rev', edge_order='rev', attr_order='rev', secedges=True, id_style='under')]
OPTION_SETS = {
    'export': [{}, {'continuous': True}, {'gf_split': True}, {'gf_split': True, 'gf_separator': '#'},
               {'replace_parens': True}, {'gz': True}, {'enc': 'latin-1'}, {'enc': 'utf-16'},
               {'continuous': True, 'gf_split': True, 'replace_parens': True}, {'gz': True, 'enc': 'latin-1'},
               {'gz': 'members'}, {'eol': 'crlf'}, {'final': 'none'}, {'final': 'double'}, {'path': 'odd'}, {'path': 'relative', 'gz': True},
               {'eol': 'crlf', 'final': 'none', 'enc': 'utf-16'}],
    'brackets': [{}, {'gf_split': True}, {'gf_split': True, 'gf_separator': '#'}, {'replace_parens': True},
                 {'brackets_firstid': 17}, {'brackets_firstid': 0}, {'brackets_emptypos': True}, {'gz': True}, {'enc': 'latin-1'},
                 {'enc': 'utf-16'}, {'noquiet': True}, {'brackets_firstid': 5, 'gf_split': True, 'replace_parens': True},
                 {'gz': True, 'enc': 'latin-1'}, {'gz': 'members', 'enc': 'utf-16'},
                 {'eol': 'crlf'}, {'final': 'double'}, {'path': 'odd', 'gz': True}, {'path': 'relative'}],
    'discobrackets': [{}, {'disco_reordered': True}, {'gf_split': True}, {'brackets_firstid': 9}, {'gz': True}, {'gz': 'members'},
                      {'replace_parens': True}, {'brackets_firstid': 0, 'disco_reordered': True},
                      {'eol': 'crlf'}, {'final': 'none'}, {'path': 'odd'}],
    'tigerxml': [{}, {'continuous': True}, {'gf_split': True}, {'gf_split': True, 'gf_separator': '#'},
                 {'replace_parens': True}, {'gz': True}, {'enc': 'latin-1'}, {'enc': 'utf-16'}, {'noquiet': True},
                 {'continuous': True, 'gf_split': True, 'replace_parens': True}, {'gz': True, 'enc': 'utf-16'},
                 {'gz': 'members', 'enc': 'latin-1'}, {'eol': 'crlf'}, {'final': 'none'}, {'path': 'odd'}, {'path': 'relative'}],
}
PAREN = [('(', 'LRB'), ('-LRB-', 'LRB'), ('[', 'LSB'), ('-LSB-', 'LSB'), ('{', 'LCB'), ('-LCB-', 'LCB'),
         (')', 'RRB'), ('-RRB-', 'RRB'), (']', 'RSB'), ('-RSB-', 'RSB'), ('}', 'RCB'), ('-RCB-', 'RCB')]


def map_parens(s):
    if s is None:
        return None
    for a, b in PAREN:
        s = s.replace(a, b)
    return s


def encodable(mts, enc):
    try:
        for m in mts:
            for tk in m.toks:
                ' '.join(str(v) for v in tk.values()).encode(enc)
        return True
    except UnicodeEncodeError:
        return False


def expected_corpus(mts, fmt, layout, opts):
    """What the reader must yield: list of (MT, compared token fields, edges compared?)."""
    out = []
    gf_split = 'gf_split' in opts
    sep = opts.get('gf_separator', '-')
    for k, m in enumerate(mts):
        sid = m.sid
        if opts.get('continuous'):
            sid = k + 1
        if fmt in ('brackets', 'discobrackets'):
            sid = opts.get('brackets_firstid', 1) + k
        toks = [dict(t) for t in m.toks]
        gf_written = layout.get('gf')

        def relabel(nd, is_root=True):
            if isinstance(nd, int):
                return nd
            lab, edge = nd[0], nd[1]
            if fmt in ('brackets', 'discobrackets'):
                edge = '--'
                if is_root and layout.get('empty_root'):
                    lab, edge = 'VROOT', None
                elif gf_split:
                    lab, edge = split_label(codecs.label_with_edge(nd[0], nd[1], gf_written), True, sep)
            elif gf_split:
                if not (fmt == 'export' and is_root):
                    lab, edge = split_label(nd[0], True, sep)
            if fmt == 'export' and is_root:
                lab, edge = 'VROOT', '--'
            return (lab, edge, tuple(relabel(x, False) for x in nd[2]))
        root = relabel(m.root)
        if fmt == 'tigerxml' and layout.get('implicit_vroot') and len(m.root[2]) == 1 and not gf_split:
            only = root[2][0]
            if isinstance(only, int):
                toks[only - 1]['edge'] = '--'
            else:
                root = (root[0], root[1], ((only[0], '--', only[2]),))
        for t in toks:
            if fmt in ('brackets', 'discobrackets'):
                t['lemma'], t['morph'] = None, '--'
                if layout.get('emptypos'):
                    t['pos'], t['edge'] = 'EMPTY', '--'
                elif gf_split:
                    t['pos'], t['edge'] = split_label(codecs.label_with_edge(t['pos'], t['edge'], gf_written), True, sep)
                else:
                    t['edge'] = '--'
            else:
                if fmt == 'export' and layout.get('version', 3) == 3:
                    t['lemma'] = '--'
                if gf_split:
                    t['pos'], t['edge'] = split_label(t['pos'], True, sep)
        if opts.get('replace_parens'):
            for t in toks:
                for f in ('word', 'pos', 'lemma', 'morph', 'edge'):
                    t[f] = map_parens(t[f])

            def rp(nd):
                if isinstance(nd, int):
                    return nd
                return (map_parens(nd[0]), map_parens(nd[1]), tuple(rp(x) for x in nd[2]))
            root = rp(root)
        out.append(model.MT(sid, toks, root))
    return out


def write_file(fmt, text, opts, binary_enc):
    name = {'export': 'c.export', 'brackets': 'c.mrg', 'discobrackets': 'c.dbr', 'tigerxml': 'c.xml'}[fmt]
    # file-level features: line ends, final newline, blank lines at the end, odd and relative paths
    if opts.get('eol') == 'crlf':
        text = text.replace('\n', '\r\n')
    if opts.get('final') == 'none':
        text = text.rstrip('\r\n')
    elif opts.get('final') == 'double':
        text = text + '\n\n'
    if opts.get('path') in ('odd', 'relative'):
        sub = os.path.join(scratch(), 'tree bank (v2) \u00fc[1]')
        os.makedirs(sub, exist_ok=True)
        name = os.path.join('tree bank (v2) \u00fc[1]', 'c\u00f6rpus *1?.' + name.split('.')[1])
    path = os.path.join(scratch(), name + ('.gz' if opts.get('gz') else ''))
    data = text.encode(binary_enc)
    if opts.get('gz') == 'members':
        # a multi-member gzip file (what `cat a.gz b.gz`, pigz -i or bgzip produce): three members cut at arbitrary bytes
        cut = [0, len(data) // 3, 2 * len(data) // 3, len(data)]
        with open(path, 'wb') as f:
            for a, b in zip(cut, cut[1:]):
                f.write(gzip.compress(data[a:b]))
    elif opts.get('gz'):
        with gzip.open(path, 'wb') as f:
            f.write(data)
    else:
        with open(path, 'wb') as f:
            f.write(data)
    return path


def check_corpus(fmt, mtjs, layout, opts):
    mts = [model.MT.from_json(j) for j in mtjs]
    layout = dict(layout)
    if layout.pop('raw_parens', False):
        # the tree part of a discobracket line holds indices only: parentheses may stand unescaped in the sentence part
        mts = [model.MT(m.sid, [dict(tk, word={'a': '(', 'b': ')'}.get(tk['word'], tk['word'])) for tk in m.toks], m.root)
               for m in mts]
    if isinstance(layout.get('numbering'), list):
        layout['numbering'] = tuple(layout['numbering'])
    case = {'fmt': fmt, 'corpus': mtjs, 'layout': layout, 'opts': opts}
    out = []

    def bad(kind, detail):
        out.append({'kind': kind, 'where': 'treeinput.' + fmt, 'case': case,
                    'detail': '%s [corpus %s, layout %r, options %r]'
                              % (detail, [model.mt_str(m.root, m.toks) for m in mts], layout, opts),
                    'what': '%s reader: %s' % (fmt, kind)})
    enc = opts.get('enc', 'utf-8')
    ropts = cli_options({k: v for k, v in opts.items() if k not in ('gz', 'enc', 'noquiet', 'eol', 'final', 'path')})
    if not opts.get('noquiet'):
        ropts['quiet'] = True
    enc_kw = dict(layout)
    if fmt == 'export':
        text = codecs.encode_export(mts, **enc_kw)
    elif fmt == 'brackets':
        if opts.get('gf_split'):
            enc_kw['gf'] = opts.get('gf_separator', '-')
            layout['gf'] = enc_kw['gf']
        if opts.get('brackets_emptypos'):
            enc_kw['emptypos'] = True
            layout['emptypos'] = True
        text = codecs.encode_brackets(mts, **enc_kw)
    elif fmt == 'discobrackets':
        text = codecs.encode_discobrackets(mts, **enc_kw)
    else:
        text = codecs.encode_tigerxml(mts, encoding=enc, **enc_kw)
    path = write_file(fmt, text, opts, enc)
    rpath, old_cwd = path, None
    decoys = []
    if opts.get('gz'):
        # an unpacked file of the same name (other content, written later) lies next to the compressed one ...
        dmt = [model.MT(77, model.mk_tokens(1, words=['decoy']), ('VROOT', '--', (1,)))]
        dtext = {'export': codecs.encode_export, 'brackets': codecs.encode_brackets, 'discobrackets': codecs.encode_discobrackets,
                 'tigerxml': codecs.encode_tigerxml}[fmt](dmt)
        with open(path[:-3], 'w', encoding='utf-8') as f:
            f.write(dtext)
        decoys.append(path[:-3])
        if opts.get('path') == 'relative':
            # ... and a compressed file of the same relative name was read a moment ago from another working directory
            other_cwd = os.path.join(scratch(), 'cwd-a')
            rel = os.path.relpath(path, scratch())
            os.makedirs(os.path.dirname(os.path.join(other_cwd, rel)), exist_ok=True)
            with gzip.open(os.path.join(other_cwd, rel), 'wb') as f:
                f.write(dtext.encode('utf-8'))
            decoys.append(os.path.join(other_cwd, rel))
            keep = os.getcwd()
            os.chdir(other_cwd)
            try:
                run_reader(getattr(treeinput, fmt), os.path.join('.', rel), 'utf-8', quiet=True)
            finally:
                os.chdir(keep)
    if opts.get('path') == 'relative':
        # the file is named relative to a working directory that is neither its own nor the tool's
        old_cwd = os.getcwd()
        os.chdir(scratch())
        rpath = os.path.join('.', os.path.relpath(path, scratch()))
    try:
        trees_, err, so, se = run_reader(getattr(treeinput, fmt), rpath, enc, **ropts)
    finally:
        if old_cwd is not None:
            os.chdir(old_cwd)
    if err is None and not opts.get('gz') and enc == 'utf-8' and fmt in SISTER:
        # another reader alive: a generator of the sister format (brackets <-> discobrackets, export <-> TIGER-XML) was
        # started on another file and is half-way through it while this file is read again
        sfmt = SISTER[fmt]
        spath = os.path.join(scratch(), 'sister.' + sfmt)
        two = [model.MT(901, model.mk_tokens(2), ('VROOT', '--', (('NP', 'HD', (1,)), 2))),
               model.MT(902, model.mk_tokens(1), ('VROOT', '--', (1,)))]
        with open(spath, 'w', encoding='utf-8') as f:
            f.write({'export': codecs.encode_export, 'brackets': codecs.encode_brackets, 'discobrackets': codecs.encode_discobrackets,
                     'tigerxml': codecs.encode_tigerxml}[sfmt](two))
        again, err2 = [], None
        with contextlib.redirect_stdout(io.StringIO()), contextlib.redirect_stderr(io.StringIO()):
            try:
                other = getattr(treeinput, sfmt)(spath, 'utf-8', quiet=True)
                next(other, None)
                again = list(getattr(treeinput, fmt)(path, enc, **ropts))
                rest = list(other)
            except Exception as e:
                err2 = e
        os.unlink(spath)
        if err2 is not None:
            bad('interleaved-readers', 'read while a %s reader on another file was alive: %s: %s' % (sfmt, type(err2).__name__, err2))
        elif [bridge_canon(x) for x in again] != [bridge_canon(x) for x in trees_] or len(rest) != 1:
            bad('interleaved-readers', 'read while a %s reader on another file was alive: %d trees (alone: %d); the other reader '
                'delivered %d more trees (expected 1)' % (sfmt, len(again), len(trees_), len(rest)))
    if err is None and opts.get('gz'):
        # two readers alive at once: the same file is read again while a second reader on ANOTHER compressed file
        # (the corpus repeated four times, other sentence ids) is advanced in lockstep; the trees of the first must
        # be the ones just read
        other = path + '.other.gz'
        big = [model.MT(900 + i, m.toks, m.root) for i in range(4) for m in mts]
        otext = {'export': codecs.encode_export, 'brackets': codecs.encode_brackets,
                 'discobrackets': codecs.encode_discobrackets}.get(fmt)
        if otext is not None:
            with gzip.open(other, 'wb') as f:
                f.write(otext(big).encode(enc))
            again, err2 = [], None
            with contextlib.redirect_stdout(io.StringIO()), contextlib.redirect_stderr(io.StringIO()):
                try:
                    it_a = getattr(treeinput, fmt)(path, enc, **ropts)
                    it_b = getattr(treeinput, fmt)(other, enc, **ropts)
                    for ta in it_a:
                        again.append(ta)
                        next(it_b, None)
                except Exception as e:
                    err2 = e
            os.unlink(other)
            if err2 is not None:
                bad('interleaved-readers', 'read next to a second live reader on another .gz file: %s: %s' % (type(err2).__name__, err2))
            elif [bridge_canon(x) for x in again] != [bridge_canon(x) for x in trees_]:
                bad('interleaved-readers', 'read next to a second live reader on another .gz file: %d trees, differing from the %d '
                    'trees of the same file read alone' % (len(again), len(trees_)))
    os.unlink(path)
    for dp in decoys:
        if os.path.exists(dp):
            os.unlink(dp)
    if err is not None:
        bad('exception', '%s: %s (after %d trees)' % (type(err).__name__, err, len(trees_)))
        return out
    if not opts.get('noquiet') and (so or se):
        bad('not-quiet', 'quiet, but the reader printed %r / %r' % (so[:80], se[:80]))
    exp = expected_corpus(mts, fmt, layout, opts)
    if len(trees_) != len(exp):
        bad('tree-count', '%d trees yielded for %d sentences' % (len(trees_), len(exp)))
        return out
    fields = {'export': ('word', 'pos', 'lemma', 'morph', 'edge'), 'tigerxml': ('word', 'pos', 'lemma', 'morph', 'edge'),
              'brackets': ('word', 'pos', 'lemma', 'morph', 'edge'), 'discobrackets': ('word', 'pos', 'edge')}[fmt]
    for k, (t, e, m) in enumerate(zip(trees_, exp, mts)):
        probs = monitor(t, e.n())
        if probs:
            bad('ill-formed-tree', 'sentence %d: %s' % (k + 1, '; '.join(probs)))
            continue
        g = extract(t)
        if fmt == 'discobrackets' and opts.get('disco_reordered'):
            # bracket order, words are '<index>-<token>'
            order = bracket_order(m.root)
            want_words = ['%d-%s' % (i, m.toks[i - 1]['word']) for i in order]
            want_pos = [e.toks[i - 1]['pos'] for i in order]
            if [x['word'] for x in g.toks] != want_words or [x['pos'] for x in g.toks] != want_pos:
                bad('disco-reordered', 'sentence %d: tokens %r, expected %r'
                    % (k + 1, [(x['word'], x['pos']) for x in g.toks], list(zip(want_words, want_pos))))
            continue
        d = mt_equal(e, g, tok_fields=fields, edges=True, sid=True)
        if d:
            bad('decode-mismatch', 'sentence %d: %s' % (k + 1, d))
    return out


def bracket_order(nd):
    if isinstance(nd, int):
        return [nd]
    out = []
    for k in nd[2]:
        out.extend(bracket_order(k))
    return out


# =================================================================== driver
def plan(tier, seed):
    L = 10 if tier == 'quick' else 12
    chunks = []
    for a in CLASSES:
        for b in CLASSES:
            if a == b and a in ('ws', 'tok'):
                continue
            for c in CLASSES:
                if b == c and b in ('ws', 'tok'):
                    continue
                chunks.append({'kind': 'auto', 'prefix': [a, b, c], 'L': L})
    chunks.append({'kind': 'auto-short', 'L': 2})
    chunks.append({'kind': 'cli-options'})
    chunks.append({'kind': 'cli-directory'})
    ncorp = len(corpora(tier))
    for fmt in ('export', 'brackets', 'discobrackets', 'tigerxml'):
        for lo in range(0, ncorp, 12):
            chunks.append({'kind': 'corpus', 'fmt': fmt, 'lo': lo, 'hi': lo + 12, 'tier': tier})
    return {
        'chunks': chunks,
        'rule': '(a) every sequence of lexer classes ( ) WS TOKEN up to length %d (no two adjacent WS/TOKEN), each '
                'rendered as a file (3 whitespace styles, with/without final newline) and read with emptypos x '
                'gf_split on/off; subtrees are cut only after reference and implementation both rejected the prefix. '
                '(b) %d corpora of 1..3 sentences (feature pool + all shapes n <= %d) x all layouts of each format x '
                'option sets (every single option, gzip, 3 encodings, combinations). (c) gf_split through the command line next to the writer options gf / gf_separator; directories of source files (named like split parts) through the command line, twice. non-trivial = sequences that '
                'contain at least one complete group; corpora cases are all non-trivial'
                % (L, ncorp, 3 if tier == 'quick' else 4),
        'bound': 'class sequences of length <= %d; corpora of <= %d sentences' % (L, 2 if tier == 'quick' else 3),
        'exhaustive': True,
        'explanation': 'states = explored class-sequence prefixes (each one a real file read by the real reader); '
                       'transitions = one-class extensions; traces = maximal explored sequences (length bound or '
                       'jointly rejected prefix); every trace is executed on the implementation',
        'assumptions': ['text between bracket groups is skipped (DESIGN D3)',
                        'export comment lines occur only outside sentences or after the fields of a line',
                        'discobrackets: one tree per line, sentence part single-blank separated, final newline present',
                        'with gf_split every reader replaces (label, edge) by the split of the label string'],
    }


def variants_for(tier):
    vs = [(0, True, False, False), (1, False, True, False), (2, True, False, True), (0, False, True, True)]
    if tier != 'quick':
        vs += [(1, True, False, False), (2, False, True, True)]
    return vs


def check_case(case):
    if case.get('dir'):
        from .c03 import check_directory
        with quiet():
            return check_directory(case['a'], case['b'], case['src'], case['dest'])
    with quiet():
        if case.get('gf_transfer'):
            from .c03 import check_gf_transfer
            return check_gf_transfer(case['corpus'], case['dest'])
        if 'seq' in case:
            return check_seq(tuple(case['seq']), case['ws'], case['nl'], case['emptypos'], case['gf_split'],
                             case.get('firstid'))[0]
        return check_corpus(case['fmt'], case['corpus'], case['layout'], case['opts'])


def run_chunk(chunk):
    if chunk.get('kind') == 'cli-directory':
        # a directory of files through the command line (names as `--split` gives them; a second run over the same directory)
        from .c03 import check_directory, pool
        res = Result()
        P = pool(False)
        with quiet():
            for src, dest in [('export3', 'export3'), ('tigerxml', 'export4'), ('discobrackets', 'export3')]:
                vs = check_directory([m.to_json() for m in P[:2]], [m.to_json() for m in P[2:4]], src, dest)
                res.evals += 1
                res.nontrivial += 1
                res.outcome(('cli-directory', src, dest, len(vs)))
                for v in vs:
                    res.violation(v['kind'], v['where'], v['case'], v['detail'], v['what'])
        res.sample({'cli': 'treetools transform DIR ignored --src-format S --dest-format D', 'files': ['part.0', 'part.1']})
        return res
    res = Result()
    with quiet():
        if chunk['kind'] == 'auto':
            tier = 'quick' if chunk['L'] <= 10 else 'thorough'
            search(chunk['prefix'], chunk['L'], res, variants_for(tier))
            res.sample({'class_sequence_prefix': chunk['prefix'], 'max_length': chunk['L'],
                        'example_file': render(tuple(chunk['prefix']) + ('tok', 'ws', 'tok', ')'), 0, True)[1]})
        elif chunk['kind'] == 'cli-options':
            # the reader option as the command line delivers it, next to a writer option of the same family
            from .c03 import check_gf_transfer, pool
            corp = [m.to_json() for m in pool(True)[:3]]
            for dest in ('export3', 'brackets', 'discobrackets'):
                vs = check_gf_transfer(corp, dest)
                res.evals += 1
                res.nontrivial += 1
                res.outcome(('cli-options', dest, len(vs)))
                for x in vs:
                    res.violation(x['kind'], x['where'], x['case'], x['detail'], x['what'])
            res.sample({'cli': 'treetools transform SRC DEST --src-format brackets --src-opts gf_split --dest-opts gf gf_separator:#'})
        elif chunk['kind'] == 'auto-short':
            for L in range(0, chunk['L'] + 1):
                for seq in itertools.product(CLASSES, repeat=L):
                    if any(a == b and a in ('ws', 'tok') for a, b in zip(seq, seq[1:])):
                        continue
                    res.states += 1
                    res.transitions += 1
                    for v in variants_for('thorough'):
                        vs, _, outcome = check_seq(seq, *v)
                        res.evals += 1
                        for x in vs:
                            res.violation(x['kind'], x['where'], x['case'], x['detail'], x['what'])
                    for fid in (0, 41):
                        vs, _, _ = check_seq(('(', 'tok', 'ws', 'tok', ')') * 2, 0, True, False, False, firstid=fid)
                        for x in vs:
                            res.violation(x['kind'], x['where'], x['case'], x['detail'], x['what'])
        else:
            fmt = chunk['fmt']
            layouts = {'export': EXPORT_LAYOUTS, 'brackets': BRACKET_LAYOUTS, 'discobrackets': DISCO_LAYOUTS,
                       'tigerxml': TIGER_LAYOUTS}[fmt]
            corp = None
            extra = [nbsp_corpus()] if (fmt in ('brackets', 'discobrackets') and chunk['lo'] == 0) else []
            for corp in extra + corpora(chunk['tier'])[chunk['lo']:chunk['hi']]:
                if fmt == 'brackets' and any(model.mt_tree_gap_degree(m.root) > 0 for m in corp):
                    continue
                js = [m.to_json() for m in corp]
                for li, layout in enumerate(layouts):
                    for oi, opts in enumerate(OPTION_SETS[fmt]):
                        if li and oi and chunk['tier'] == 'quick' and (li + oi) % 3:
                            continue
                        if 'enc' in opts and not encodable(corp, opts['enc']):
                            continue
                        vs = check_corpus(fmt, js, layout, opts)
                        res.evals += 1
                        res.nontrivial += 1
                        res.outcome((fmt, tuple(m.key() for m in corp), repr(layout), repr(opts), len(vs)))
                        for v in vs:
                            res.violation(v['kind'], v['where'], v['case'], v['detail'], v['what'])
            if corp:
                res.sample({'format': fmt, 'corpus': [model.mt_str(m.root, m.toks) for m in corp],
                            'layouts': len(layouts), 'option_sets': len(OPTION_SETS[fmt])})
    return res
