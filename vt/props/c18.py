"""C18 Processing is sentence-local, deterministic and history-independent.

(1) histories: every operation sequence up to a length bound executed in one freshly imported copy of
    trees.*; every output must equal the operation's fresh-process reference;
(2) explicit-state BFS over the hidden process state (mechanical snapshot of trees.*): every operation
    is applied in every reachable hidden state;
(3) concatenation: op(A+B) == op(A) (+) op(B);
(4) determinism under several PYTHONHASHSEED values (real subprocesses)."""
import os
import sys
import json
import types
import shutil
import hashlib
import itertools
import collections
import subprocess

from .. import model, codecs
from ..runner import Result, scratch

ID = 'C18'
LEVEL = 'model_checking'
TECHNIQUE = 'explicit-state BFS over process histories (operation sequences in one interpreter, hidden-state snapshot as state), fresh-process references, hash-seed sweep'

HERE = os.path.dirname(os.path.dirname(os.path.dirname(os.path.abspath(__file__))))
REPO = os.environ.get('VT_REPO', '/repo')


# ---------------------------------------------------------------- fixed inputs
def _mt(sh, sid, salt, traces=False):
    n = len(model.leaves(sh))
    edges = ['HD', 'NK', 'SB', '--']
    labels = ['S', 'NP', 'VP', 'PP']
    words = ['Der', 'Hund', ',', 'bellt', '"', 'laut', '-LRB-', 'x']
    root = model.decorate(sh, lambda p, s: labels[(sum(p) + len(p) + salt) % 4], lambda p, s: edges[(sum(p) + salt) % 4])
    toks = model.mk_tokens(n, words=[words[(salt + i) % len(words)] for i in range(n)],
                           pos=['NN', 'ART', 'VVFIN', 'APPR'][salt % 4:] + ['NN', 'ART', 'VVFIN', 'APPR'],
                           edge=[edges[(i + salt) % 4] for i in range(n)])
    toks = toks[:n]
    return model.MT(sid, toks, root)


def corpus(name):
    if name == 'E':      # export/tiger: discontinuous, 3 sentences, same rule under different parents
        return [_mt(((1, 3), 2, 4), 1, 0), _mt(((1, 2), (3, 4)), 2, 1), _mt((((1, 4), 2), 3, 5), 5, 2)]
    if name == 'F':
        return [_mt((1, (2, 3)), 7, 3), _mt(((1, 3, 5), 2, 4), 8, 1)]
    if name == 'B':      # continuous (brackets)
        return [_mt(((1, 2), 3), 1, 0), _mt((1, (2, 3, 4)), 2, 1), _mt(((1,), (2, 3)), 3, 2)]
    if name == 'C':
        return [_mt((1, 2, 3), 1, 2), _mt(((1, 2), (3, (4, 5))), 2, 3)]
    raise KeyError(name)


TRACES2 = ('((S (WHNP-1 (WP who)) (NP-SBJ-2 (NN dogs)) (VP (VB bark) (NP (-NONE- *T*-1)) (NP (-NONE- *-2)))))\n'
           '((S (NP-3 (NN cats)) (WHADVP-4 (WRB when)) (VP (VB sleep) (NP (-NONE- *-3)) (ADVP (-NONE- *T*-4)))))\n'
           # a co-indexed trace without a filler next to two filled ones whose paths share nodes
           '((S (WHNP-5 (WP what)) (NP-SBJ-6 (NN birds)) (VP (VB sing) (NP (-NONE- *T*-5)) (NP (-NONE- *-6)) (PP (-NONE- *ICH*-7)))))\n')
TRACES = '((S (NP-SBJ-1 (NN dogs)) (VP (VB bark) (NP (-NONE- *T*-1)))))\n((S (WHNP-2 (WP who)) (S (NP (-NONE- *T*-2)) (VP (VB left)))))\n'
TERMFILES = {
    'F1': ('terms_one.txt', '1 2 neu XY\n2 1 vorn XY\n'),
    'F2': ('terms_two.txt', '1 1 ganz ZZ\n5 3 drei ZZ\n'),
    'F3': ('terms_three.txt', '1 1 ERSATZ QQ\n2 4 ende\n'),
}


def text_of(name, fmt):
    mts = corpus(name)
    if fmt == 'export':
        return codecs.encode_export(mts)
    if fmt == 'tigerxml':
        return codecs.encode_tigerxml(mts)
    if fmt == 'brackets':
        return codecs.encode_brackets(mts, layout='indented')
    return codecs.encode_discobrackets(mts)


# ---------------------------------------------------------------- operations
# name -> (subcommand argv template, source spec, outputs)
def _ops():
    T = ['root_attach', 'negra_mark_heads', 'boyd_split', 'raising']
    return collections.OrderedDict([
        ('conv_export_tiger', dict(src=('E', 'export'), argv=['transform', '{src}', '{dest}', '--dest-format', 'tigerxml'])),
        ('conv_tiger_export', dict(src=('F', 'tigerxml'), argv=['transform', '{src}', '{dest}', '--src-format', 'tigerxml'])),
        ('conv_brackets_multi', dict(src=('B', 'brackets'), argv=['transform', '{src}', '{dest}', '--src-format', 'brackets',
                                                                   '--dest-format', 'brackets', '--dest-opts', 'brackets_emptyroot'])),
        ('conv_disco_export', dict(src=('E', 'discobrackets'), argv=['transform', '{src}', '{dest}', '--src-format', 'discobrackets'])),
        ('conv_disco_reordered', dict(src=('E', 'discobrackets'), argv=['transform', '{src}', '{dest}', '--src-format', 'discobrackets',
                                                                       '--dest-format', 'tigerxml', '--src-opts', 'disco_reordered'])),
        ('conv_export_disco', dict(src=('F', 'export'), argv=['transform', '{src}', '{dest}', '--dest-format', 'discobrackets',
                                                               '--dest-opts', 'gf'])),
        ('insert_F1', dict(src=('E', 'export'), terms='F1', argv=['transform', '{src}', '{dest}', '--trans', 'insert_terminals',
                                                                  '--params', 'terminalfile:{terms}', 'quiet'])),
        ('insert_F2', dict(src=('E', 'export'), terms='F2', argv=['transform', '{src}', '{dest}', '--trans', 'insert_terminals',
                                                                  '--params', 'terminalfile:{terms}', 'quiet'])),
        ('subst_F3', dict(src=('E', 'export'), terms='F3', argv=['transform', '{src}', '{dest}', '--trans', 'substitute_terminals',
                                                                 '--params', 'terminalfile:{terms}', 'quiet'])),
        ('traces', dict(src=('TRACES', 'brackets'), argv=['transform', '{src}', '{dest}', '--src-format', 'brackets', '--dest-format',
                                                         'brackets', '--trans', 'ptb_delete_traces'])),
        ('traces_slash', dict(src=('TRACES2', 'brackets'), argv=['transform', '{src}', '{dest}', '--src-format', 'brackets', '--dest-format',
                                                                'brackets', '--trans', 'ptb_delete_traces', '--params', 'keepall', 'slash'])),
        ('boyd', dict(src=('E', 'export'), argv=['transform', '{src}', '{dest}', '--trans'] + T + ['--dest-opts', 'boyd_split_marking'])),
        ('punct_bin', dict(src=('C', 'brackets'), argv=['transform', '{src}', '{dest}', '--src-format', 'brackets', '--dest-format', 'export',
                                                        '--trans', 'punctuation_root', 'negra_mark_heads', 'binarize',
                                                        '--dest-opts', 'mark_heads_marking'])),
        ('bin_bare', dict(src=('C', 'brackets'), argv=['transform', '{src}', '{dest}', '--src-format', 'brackets', '--dest-format', 'brackets',
                                                       '--trans', 'mark_heads_by_rules', 'binarize', '--params', 'mark_heads_preset:negra',
                                                       'bare_bin_labels'])),
        ('heads_ptb', dict(src=('C', 'brackets'), argv=['transform', '{src}', '{dest}', '--src-format', 'brackets', '--dest-format', 'brackets',
                                                        '--trans', 'mark_heads_by_rules', 'binarize', '--params', 'mark_heads_preset:ptb',
                                                        '--dest-opts', 'mark_heads_marking'])),
        ('gram_treebank_pmcfg', dict(src=('E', 'export'), grammar=True, argv=['grammar', '{src}', '{dest}', 'treebank'])),
        ('gram_leftright_rcg', dict(src=('E', 'export'), grammar=True, argv=['grammar', '{src}', '{dest}', 'leftright', '--dest-format', 'rcg'])),
        ('gram_optimal_markov', dict(src=('F', 'export'), grammar=True, argv=['grammar', '{src}', '{dest}', 'optimal', '--markov', 'v:1', 'h:1',
                                                                              '--dest-opts', 'lex_in_grammar'])),
        ('gram_lopar', dict(src=('B', 'brackets'), grammar=True, argv=['grammar', '{src}', '{dest}', 'leftright', '--src-format', 'brackets',
                                                                        '--dest-format', 'lopar'])),
        ('analysis_gap', dict(src=('E', 'export'), stdout=True, argv=['treeanalysis', '{src}', 'GapDegree'])),
        ('analysis_tags', dict(src=('F', 'tigerxml'), stdout=True, argv=['treeanalysis', '{src}', 'PosTags', '--src-format', 'tigerxml'])),
        ('transitions_gap', dict(src=('E', 'export'), argv=['transitions', '{src}', '{dest}', 'gap', '--transform', 'negra_mark_heads', 'binarize'])),
        ('transitions_inorder', dict(src=('B', 'brackets'), argv=['transitions', '{src}', '{dest}', 'inorder', '--src-format', 'brackets'])),
    ])


OPS = _ops()
SETLIKE = ('.start', '.lex', '.oc', '.OC', '.gram', '.rcg')
_seq = itertools.count()


def fresh_import():
    """Drop every trace of the library from this interpreter and import it again."""
    for name in list(sys.modules):
        if name == 'trees' or name.startswith('trees.') or name == 'vt_treetools_script':
            del sys.modules[name]
    from .. import cli
    cli._mod = None
    if REPO not in sys.path:
        sys.path.insert(0, REPO)
    import trees  # noqa: F401
    return cli


def run_op(name, cli, workdir):
    """Executes one operation; returns its observation {file/stream name: text}."""
    op = OPS[name]
    d = os.path.join(workdir, 'op%d' % next(_seq))
    os.makedirs(d)
    cname, fmt = op['src']
    src = os.path.join(d, 'src.' + fmt)
    with open(src, 'w', encoding='utf-8') as f:
        f.write(TRACES if cname == 'TRACES' else TRACES2 if cname == 'TRACES2' else text_of(cname, fmt))
    dest = os.path.join(d, 'dest')
    terms = ''
    if 'terms' in op:
        fname, content = TERMFILES[op['terms']]
        terms = os.path.join(workdir, fname)       # the same file name every time this op runs
        with open(terms, 'w', encoding='utf-8') as f:
            f.write(content)
    argv = [a.format(src=src, dest=dest, terms=terms) for a in op['argv']]
    st, so, se, exc = cli.run(argv)
    obs = {'status': str(st) + ('' if exc is None else ' ' + type(exc).__name__ + ': ' + str(exc))}
    if op.get('stdout'):
        obs['stdout'] = so
    for fn in sorted(os.listdir(d)):
        if fn.startswith('dest'):
            with open(os.path.join(d, fn), 'rb') as f:
                data = f.read().decode('utf-8', 'replace')
            if fn.endswith(SETLIKE):
                data = '\n'.join(sorted(data.split('\n')))
            obs[fn] = data
    shutil.rmtree(d, ignore_errors=True)
    return obs


def run_history(names, workdir):
    cli = fresh_import()
    return [run_op(n, cli, workdir) for n in names]


# ---------------------------------------------------------------- hidden state snapshot
def _canon_obj(o, depth=0, seen=None):
    seen = seen or set()
    if depth > 6:
        return '<deep>'
    if o is None or isinstance(o, (bool, int, float, str, bytes)):
        return repr(o)
    if isinstance(o, (types.ModuleType, types.FunctionType, types.BuiltinFunctionType, type, types.MethodType)):
        return '<%s %s>' % (type(o).__name__, getattr(o, '__name__', '?'))
    if id(o) in seen:
        return '<cycle>'
    seen = seen | {id(o)}
    if isinstance(o, itertools.count):
        return '<counter>'
    if isinstance(o, dict):
        return '{' + ','.join(sorted('%s:%s' % (_canon_obj(k, depth + 1, seen), _canon_obj(v, depth + 1, seen))
                                     for k, v in o.items())) + '}'
    if isinstance(o, (list, tuple)):
        return '[' + ','.join(_canon_obj(x, depth + 1, seen) for x in o) + ']'
    if isinstance(o, (set, frozenset)):
        return '{' + ','.join(sorted(_canon_obj(x, depth + 1, seen) for x in o)) + '}'
    d = getattr(o, '__dict__', None)
    if isinstance(d, dict):
        return '<%s %s>' % (type(o).__name__, _canon_obj({k: v for k, v in d.items() if k not in ('id',)}, depth + 1, seen))
    return '<%s>' % type(o).__name__


def hidden_state(workdir=''):
    """Mechanical snapshot of every module-level object, function attribute, default, closure cell
    and class attribute of trees.* (DESIGN §4 C18 (2))."""
    items = []
    for mname in sorted(sys.modules):
        if not (mname == 'trees' or mname.startswith('trees.')):
            continue
        mod = sys.modules[mname]
        for attr in sorted(vars(mod)):
            if attr.startswith('__') and attr.endswith('__'):
                continue
            val = vars(mod)[attr]
            key = mname + '.' + attr
            if isinstance(val, types.ModuleType):
                continue
            if isinstance(val, types.FunctionType):
                if val.__module__ != mname:
                    continue
                items.append((key + '.__dict__', _canon_obj(dict(val.__dict__))))
                items.append((key + '.__defaults__', _canon_obj(val.__defaults__)))
                items.append((key + '.__kwdefaults__', _canon_obj(val.__kwdefaults__)))
                if val.__closure__:
                    items.append((key + '.__closure__', _canon_obj([c.cell_contents for c in val.__closure__])))
            elif isinstance(val, type):
                if val.__module__ != mname:
                    continue
                for ca in sorted(vars(val)):
                    cv = vars(val)[ca]
                    if ca.startswith('__') or isinstance(cv, (types.FunctionType, staticmethod, classmethod, property)):
                        if isinstance(cv, types.FunctionType):
                            items.append((key + '.' + ca + '.__defaults__', _canon_obj(cv.__defaults__)))
                            items.append((key + '.' + ca + '.__dict__', _canon_obj(dict(cv.__dict__))))
                        continue
                    items.append((key + '.' + ca, _canon_obj(cv)))
            else:
                items.append((key, _canon_obj(val)))
    text = json.dumps(items, sort_keys=True)
    if workdir:
        text = text.replace(workdir, '<work>')
    return text


# ---------------------------------------------------------------- subprocess entry
def _main(argv):
    """python -m vt.props.c18 op1,op2,...  -> JSON list of observations on stdout."""
    import tempfile
    names = argv[0].split(',')
    base = '/dev/shm' if os.path.isdir('/dev/shm') else None
    wd = tempfile.mkdtemp(prefix='c18p-', dir=base)
    try:
        obs = run_history(names, wd)
        sys.stdout.write(json.dumps(obs))
    finally:
        shutil.rmtree(wd, ignore_errors=True)


def subprocess_history(names, hashseed):
    env = dict(os.environ, PYTHONHASHSEED=str(hashseed), PYTHONPATH=HERE, VT_REPO=REPO)
    p = subprocess.run([sys.executable, '-W', 'ignore', '-m', 'vt.props.c18', ','.join(names)],
                       capture_output=True, env=env, cwd=HERE)
    if p.returncode != 0:
        raise RuntimeError('history subprocess failed: ' + p.stderr.decode('utf-8', 'replace')[-500:])
    return json.loads(p.stdout.decode('utf-8'))


_refs = {}


def reference(name):
    """Fresh-process reference of one operation (hash seed 0), cached per worker."""
    if name not in _refs:
        _refs[name] = subprocess_history([name], 0)[0]
    return _refs[name]


def diff_obs(a, b):
    keys = sorted(set(a) | set(b))
    for k in keys:
        if a.get(k) != b.get(k):
            x, y = a.get(k), b.get(k)
            if x is None or y is None:
                return '%s: %s' % (k, 'missing in one run')
            i = next((i for i in range(min(len(x), len(y))) if x[i] != y[i]), min(len(x), len(y)))
            return '%s differs at offset %d: %r vs %r' % (k, i, x[max(0, i - 30):i + 40], y[max(0, i - 30):i + 40])
    return ''


# ---------------------------------------------------------------- checks
def check_history(names):
    wd = os.path.join(scratch(), 'c18h')
    shutil.rmtree(wd, ignore_errors=True)
    os.makedirs(wd)
    out = []
    try:
        obs = run_history(names, wd)
    except Exception as e:
        return [{'kind': 'exception', 'where': 'history', 'case': {'history': names},
                 'detail': '%s: %s' % (type(e).__name__, e), 'what': 'history raised'}]
    for i, (n, o) in enumerate(zip(names, obs)):
        d = diff_obs(reference(n), o)
        if d:
            out.append({'kind': 'history-dependent', 'where': n, 'case': {'history': names},
                        'detail': 'operation %d (%s) after %r differs from its fresh-process result: %s'
                                  % (i + 1, n, names[:i], d),
                        'what': '%s gives a different result after other calls in the same process' % n})
            break
    return out


def check_bfs(depth, res):
    """BFS over hidden states: every operation applied in every reachable hidden state."""
    wd = os.path.join(scratch(), 'c18b')
    shutil.rmtree(wd, ignore_errors=True)
    os.makedirs(wd)
    fresh_import()
    init = hashlib.sha1(hidden_state(wd).encode()).hexdigest()
    seen = {init: ()}
    frontier = collections.deque([()])
    names = list(OPS)
    while frontier:
        hist = frontier.popleft()
        res.states += 0
        if len(hist) >= depth:
            res.traces += 1
            continue
        new = 0
        for n in names:
            # rebuild the state by replaying the history in a fresh import, then apply n
            cli = fresh_import()
            for h in hist:
                run_op(h, cli, wd)
            o = run_op(n, cli, wd)
            res.transitions += 1
            d = diff_obs(reference(n), o)
            if d:
                res.violation('history-dependent', n, {'history': list(hist) + [n]},
                              'operation %s in the hidden state reached by %r differs from its fresh-process result: %s'
                              % (n, list(hist), d),
                              '%s gives a different result after other calls in the same process' % n)
                continue
            st = hashlib.sha1(hidden_state(wd).encode()).hexdigest()
            res.outcome((st, n))
            if st not in seen:
                seen[st] = hist + (n,)
                frontier.append(hist + (n,))
                new += 1
        if not new:
            res.traces += 1
    res.states += len(seen)
    res.sample({'hidden_states_reached_by': [list(v) for v in list(seen.values())[:6]], 'operations': len(names)})


def _decode_any(fmt, text):
    if fmt == 'export':
        return [(m.sid, m.toks, model.canon_mt(m.root)) for m in codecs.decode_export(text)]
    if fmt == 'tigerxml':
        return [(m.sid, m.toks, model.canon_mt(m.root)) for m in codecs.decode_tigerxml(text)]
    if fmt == 'brackets':
        return [(t, r) for r, t in codecs.decode_brackets(text)]
    if fmt == 'discobrackets':
        return [(t, r) for r, t in codecs.decode_discobrackets(text)]
    if fmt == 'lines':
        return [l for l in text.split('\n') if l]
    raise KeyError(fmt)


def _api_list_then_transform(src, dest):
    """API history: read ALL trees first, transform them last-to-first with node-creating transformations,
    then write them in file order."""
    import io as _io
    from trees import treeinput, treeoutput, transform
    trees_ = list(treeinput.export(src, 'utf-8', quiet=True))
    done = {}
    for i in reversed(range(len(trees_))):
        t = trees_[i]
        for name in ('root_attach', 'negra_mark_heads', 'boyd_split', 'add_topnode'):
            t = getattr(transform, name)(t)
        done[i] = t
    with _io.open(dest, 'w', encoding='utf-8') as f:
        for i in range(len(trees_)):
            treeoutput.export(done[i], f)


def _api_interleaved_readers(src, dest):
    """API history: two readers over the same file advance alternately; trees of the second reader are
    transformed while trees of the first are still alive; the first reader's trees are written."""
    import io as _io
    from trees import treeinput, treeoutput, transform
    r1 = treeinput.export(src, 'utf-8', quiet=True)
    r2 = treeinput.export(src, 'utf-8', quiet=True)
    kept = []
    for t1 in r1:
        t2 = next(r2)
        transform.add_topnode(transform.boyd_split(transform.negra_mark_heads(transform.root_attach(t2))))
        kept.append(transform.add_topnode(transform.boyd_split(transform.negra_mark_heads(transform.root_attach(t1)))))
    with _io.open(dest, 'w', encoding='utf-8') as f:
        for t in kept:
            treeoutput.export(t, f, boyd_split_numbering=True)


def _api_two_gz_readers(src, dest):
    """API history: a reader on ANOTHER compressed treebank (larger than an I/O buffer) has been started and is half-way
    when the source is read; it is finished afterwards.  Both must deliver their own sentences."""
    import io as _io
    import gzip as _gzip
    from trees import treeinput, treeoutput
    big = src + '.other.export.gz'
    other = [model.MT(5000 + i, model.mk_tokens(4, words=['other%dw%d' % (i, j) for j in range(4)]),
                      ('VROOT', '--', (('NP', 'HD', (1, 2)), 3, 4))) for i in range(200)]
    with _gzip.open(big, 'wb') as f:
        f.write(codecs.encode_export(other).encode('utf-8'))
    r_big = treeinput.export(big, 'utf-8', quiet=True)
    got = [next(r_big)]
    mine = list(treeinput.export(src, 'utf-8', quiet=True))
    got.extend(r_big)
    os.unlink(big)
    words = [[x.data['word'] for x in sorted((l for l in _all_leaves(t)), key=lambda l: l.data['num'])] for t in got]
    want = [[tk['word'] for tk in m.toks] for m in other]
    if words != want:
        k = next((i for i, (a, b) in enumerate(zip(words, want)) if a != b), min(len(words), len(want)))
        raise RuntimeError('the reader of the other compressed treebank delivered %d sentences (expected %d); sentence %d reads %r, '
                           'expected %r' % (len(words), len(want), k + 1, words[k] if k < len(words) else None,
                                            want[k] if k < len(want) else None))
    with _io.open(dest, 'w', encoding='utf-8') as f:
        for t in mine:
            treeoutput.export(t, f)


def _all_leaves(t):
    out, stack = [], [t]
    while stack:
        x = stack.pop()
        if x.children:
            stack.extend(x.children)
        else:
            out.append(x)
    return out


def _api_stagewise(src, dest):
    """API history: the treebank is processed stage by stage - every tree is analysed (gap degrees) and offered to
    the bracket writer (which refuses the discontinuous ones), then root_attach runs on all trees, then head
    marking on all, then boyd_split on all, then raising on all; in the end every tree, now continuous, is written
    in bracket format."""
    import io as _io
    from trees import treeinput, treeoutput, transform, treeanalysis
    trees_ = list(treeinput.export(src, 'utf-8', quiet=True))
    task = treeanalysis.GapDegree()
    for t in trees_:
        task.run(t)
        try:
            treeoutput.brackets(t, _io.StringIO())
        except ValueError:
            pass
    for name in ('root_attach', 'negra_mark_heads', 'boyd_split', 'raising'):
        trees_ = [getattr(transform, name)(t) for t in trees_]
    with _io.open(dest, 'w', encoding='utf-8') as f:
        for t in trees_:
            treeoutput.brackets(t, f)


EMPTY_SENTENCE_OP = 6        # plain export -> export conversion also gets a sentence without tokens
CONCAT_OPS = [
    ('export-gzcat', ['transform', '{src}', '{dest}'], 'export', 'dest'),
    ('discobrackets', ['transform', '{src}', '{dest}', '--src-format', 'discobrackets', '--dest-format', 'tigerxml',
                       '--src-opts', 'disco_reordered'], 'tigerxml-noid', 'dest'),
    ('discobrackets', ['transform', '{src}', '{dest}', '--src-format', 'discobrackets', '--dest-format', 'discobrackets',
                       '--src-opts', 'disco_reordered'], 'discobrackets', 'dest'),       # the writer shows absolute token positions
    ('tigerxml0', ['transform', '{src}', '{dest}', '--src-format', 'tigerxml'], 'export', 'dest'),     # sentence ids from 0
    ('export', _api_list_then_transform, 'export', 'dest'),
    ('export', _api_interleaved_readers, 'export', 'dest'),
    ('export', ['transform', '{src}', '{dest}'], 'export', 'dest'),
    ('export', _api_stagewise, 'brackets-noid', 'dest'),
    ('export', ['transform', '{src}', '{dest}', '--dest-format', 'tigerxml', '--trans', 'root_attach', 'negra_mark_heads',
                'boyd_split', 'raising'], 'tigerxml', 'dest'),
    ('brackets', ['transform', '{src}', '{dest}', '--src-format', 'brackets', '--dest-format', 'brackets',
                  '--trans', 'negra_mark_heads', 'binarize'], 'brackets-noid', 'dest'),
    ('brackets-stray', ['transform', '{src}', '{dest}', '--src-format', 'brackets', '--dest-format', 'brackets'],
     'brackets-noid', 'dest'),          # a closing bracket too many after every tree (text between groups is skipped)
    ('export', ['transform', '{src}', '{dest}', '--trans', 'filter_by_length', '--params', 'filteroperator:lt', 'filtervalue:3'],
     'export', 'dest'),                 # some sentences are dropped: the others must not notice
    ('export', ['transform', '{src}', '{dest}', '--trans', 'filter_by_length', '--params', 'filteroperator:lt', 'filtervalue:3',
                '--split', 'rest'], 'export', 'dest.0'),
    ('export', ['transitions', '{src}', '{dest}', 'gap', '--transform', 'negra_mark_heads', 'binarize'], 'lines', 'dest'),
    ('export', ['grammar', '{src}', '{dest}', 'treebank'], 'pmcfg', 'dest.pmcfg'),
    ('export', ['grammar', '{src}', '{dest}', 'leftright', '--markov', 'v:1', 'h:1'], 'pmcfg', 'dest.pmcfg'),
    # deterministic binarization numbers its fresh symbols consecutively: compared after un-binarization
    ('export', ['grammar', '{src}', '{dest}', 'leftright'], 'pmcfg-unbin', 'dest.pmcfg'),
    ('export', ['grammar', '{src}', '{dest}', 'optimal'], 'pmcfg-unbin', 'dest.pmcfg'),
    ('export', ['grammar', '{src}', '{dest}', 'treebank'], 'lex', 'dest.lex'),
    ('export', ['treeanalysis', '{src}', 'GapDegree'], 'gapreport', None),
    ('export', ['treeanalysis', '{src}', 'SentenceCount'], 'count', None),
    ('export-gzcat', _api_two_gz_readers, 'export', 'dest'),
    ('discobrackets-crlf', ['transform', '{src}', '{dest}', '--src-format', 'discobrackets', '--dest-format', 'discobrackets'],
     'discobrackets', 'dest'),       # CRLF line ends in the source
]


def concat_pool():
    shs = [(1, 2), ((1, 3), 2), ((1, 2), (3, 4)), (((1, 4), 2), 3), ((1,), 2, 3), ((1, 3, 5), 2, 4)]
    wide_a = model.MT(1, model.mk_tokens(5, words=['a', 'b', 'c', 'd', 'e'], pos=['A', 'B', 'C', 'D', 'E']),
                      ('VROOT', '--', (('S', '--', (('NP', 'SB', (1, 2, 3, 4)), 5)),)))
    wide_b = model.MT(1, model.mk_tokens(5, words=['a', 'b', 'c', 'd', 'e'], pos=['A', 'B', 'C', 'D', 'E']),
                      ('VROOT', '--', (('VP', '--', (('NP', 'OA', (1, 2, 3, 4)), 5)),)))
    cont = [(1, 2), ((1, 2), 3), (1, (2, 3)), ((1,), 2, 3), ((1, 2), (3, 4)), (1, 2, 3)]
    # the same bare production once continuous, once with a gap
    vp_c = model.MT(1, model.mk_tokens(3, words=['a', 'b', 'c'], pos=['A', 'B', 'A']),
                    ('VROOT', '--', (('VP', 'HD', (1, 2)), 3)))
    vp_d = model.MT(1, model.mk_tokens(3, words=['a', 'c', 'b'], pos=['A', 'A', 'B']),
                    ('VROOT', '--', (('VP', 'HD', (1, 3)), 2)))
    # two rank-4 rules that share parent and first children (shared Markov symbols among their binarizations)
    rank4_a = model.MT(1, model.mk_tokens(4, words=['a', 'b', 'c', 'd'], pos=['A', 'B', 'C', 'D']),
                       ('VROOT', '--', (('S', '--', (1, 2, 3, 4)),)))
    rank4_b = model.MT(1, model.mk_tokens(4, words=['a', 'b', 'c', 'e'], pos=['A', 'B', 'C', 'E']),
                       ('VROOT', '--', (('S', '--', (1, 2, 3, 4)),)))
    return ([[_mt(sh, 1, i)] for i, sh in enumerate(shs)] + [[_mt(shs[0], 1, 1), _mt(shs[3], 2, 2)], [None], [wide_a], [wide_b],
             [vp_c], [vp_d], [rank4_a], [rank4_b]],
            [[_mt(sh, 1, i)] for i, sh in enumerate(cont)] + [[_mt(cont[1], 1, 1), _mt(cont[4], 2, 2)]])


def _run_concat(cli, wd, fmt, argv, mts, out_name):
    d = os.path.join(wd, 'c%d' % next(_seq))
    os.makedirs(d)
    src = os.path.join(d, 'src')
    if fmt == 'export-gzcat':
        # the concatenation is made at the gzip level: one member per sentence
        import gzip as _gzip
        src += '.gz'
        with open(src, 'wb') as f:
            for m in mts:
                f.write(_gzip.compress(codecs.encode_export([m]).encode('utf-8')))
    elif fmt in ('discobrackets', 'discobrackets-crlf'):
        with open(src, 'w', encoding='utf-8', newline='') as f:
            text = codecs.encode_discobrackets(mts)
            f.write(text.replace('\n', '\r\n') if fmt.endswith('crlf') else text)
    elif fmt == 'tigerxml0':
        with open(src, 'w', encoding='utf-8') as f:
            f.write(codecs.encode_tigerxml([model.MT(m.sid - 1, m.toks, m.root) for m in mts]))
    else:
      with open(src, 'w', encoding='utf-8') as f:
        if fmt == 'export':
            # ('EMPTY', sid) stands for a sentence without any token: '#BOS k / #EOS k'
            f.write(''.join('#BOS %d\n#EOS %d\n' % (m[1], m[1]) if isinstance(m, tuple) else codecs.encode_export([m])
                            for m in mts))
        elif fmt == 'brackets-stray':
            f.write(''.join(codecs.encode_brackets([m]) + ' )\n' for m in mts))
        else:
            f.write(codecs.encode_brackets(mts))
    dest = os.path.join(d, 'dest')
    if callable(argv):
        argv(src, dest)
        st, so = 0, ''
    else:
        st, so, se, exc = cli.run([a.format(src=src, dest=dest) for a in argv])
        if st != 0:
            raise RuntimeError('exit status %r %s' % (st, exc))
    if out_name is None:
        text = so
    else:
        with open(os.path.join(d, out_name), encoding='utf-8') as f:
            text = f.read()
    shutil.rmtree(d, ignore_errors=True)
    return text


def _interpret(kind, text):
    from .c09 import decode_pmcfg, decode_lex
    from .c16 import parse_gap_report
    import re
    if kind in ('export', 'tigerxml', 'lines', 'discobrackets'):
        return _decode_any(kind, text)
    if kind == 'brackets-noid':
        return _decode_any('brackets', text)
    if kind == 'tigerxml-noid':
        return [x[1:] for x in _decode_any('tigerxml', text)]
    if kind == 'pmcfg':
        return collections.Counter({(f, l): c for f, lins in decode_pmcfg(text).items() for l, c in lins.items()})
    if kind == 'pmcfg-unbin':
        from .. import lcfrs
        back = lcfrs.unbinarize({f: {l: {'': c} for l, c in lins.items()} for f, lins in decode_pmcfg(text).items()},
                                lambda lab: lab.startswith('@'))
        return collections.Counter({(f, l): c for f, lins in back.items() for l, c in lins.items()})
    if kind == 'lex':
        return collections.Counter({(w, t): c for w, tags in decode_lex(text).items() for t, c in tags.items()})
    if kind == 'gapreport':
        r = parse_gap_report(text)
        c = collections.Counter({'trees': r['trees'], 'nodes': r['nodes']})
        for k, v in r['per_tree'].items():
            c[('tree', k)] = v
        for k, v in r['per_node'].items():
            c[('node', k)] = v
        return c
    if kind == 'count':
        return collections.Counter({'sentences': int(re.search(r'^(\d+) sentences$', text, re.M).group(1))})
    raise KeyError(kind)


def check_concat(op_i, ia, ib):
    fmt, argv, kind, out_name = CONCAT_OPS[op_i]
    disc_pool, cont_pool = concat_pool()
    P = cont_pool if fmt.startswith('brackets') else disc_pool
    A = [('EMPTY', k + 1) if m is None else model.MT(k + 1, m.toks, m.root) for k, m in enumerate(P[ia])]
    B = [('EMPTY', len(A) + k + 1) if m is None else model.MT(len(A) + k + 1, m.toks, m.root) for k, m in enumerate(P[ib])]
    Bsolo = B if (fmt.startswith('export') or fmt == 'tigerxml0') else [('EMPTY', k + 1) if m is None else model.MT(k + 1, m.toks, m.root) for k, m in enumerate(P[ib])]
    if any(isinstance(m, tuple) for m in A + B) and op_i != EMPTY_SENTENCE_OP:
        return []
    wd = os.path.join(scratch(), 'c18c')
    os.makedirs(wd, exist_ok=True)
    case = {'concat': op_i, 'a': ia, 'b': ib}
    try:
        cli = fresh_import()
        ra = _interpret(kind, _run_concat(cli, wd, fmt, argv, A, out_name))
        cli = fresh_import()
        rb = _interpret(kind, _run_concat(cli, wd, fmt, argv, Bsolo, out_name))
        cli = fresh_import()
        rab = _interpret(kind, _run_concat(cli, wd, fmt, argv, A + B, out_name))
    except Exception as e:
        return [{'kind': 'exception', 'where': _opname(argv), 'case': case,
                 'detail': '%s: %s' % (type(e).__name__, e), 'what': 'concatenation check raised'}]
    if fmt == 'tigerxml0':
        # the ids are in the file: every sentence keeps its own, wherever it stands (0 included)
        want_ids = [m.sid - 1 for m in A + B]
        got_ids = [x[0] for x in rab]
        if got_ids != want_ids:
            return [{'kind': 'sentence-ids', 'where': _opname(argv), 'case': case,
                     'detail': 'the TIGER-XML file numbers its sentences %r, the converted file has %r' % (want_ids, got_ids),
                     'what': 'a sentence id depends on the position of the sentence in the file'}]
    if kind == 'brackets-noid' or isinstance(ra, list):
        ok = rab == ra + rb
    else:
        ok = rab == ra + rb
    if not ok:
        return [{'kind': 'not-sentence-local', 'where': _opname(argv), 'case': case,
                 'detail': 'result for A+B differs from result(A) (+) result(B): A=%s B=%s; A+B gives %r, parts give %r and %r'
                           % (['<empty sentence>' if isinstance(m, tuple) else model.mt_str(m.root) for m in A],
                              ['<empty sentence>' if isinstance(m, tuple) else model.mt_str(m.root) for m in B],
                              _short(rab), _short(ra), _short(rb)),
                 'what': 'processing the concatenation of two treebanks differs from processing them separately'}]
    return []


def _opname(argv):
    if callable(argv):
        return argv.__name__
    return ' '.join(a for a in argv if not a.startswith('{'))[:80]


def _short(x):
    s = repr(x)
    return s if len(s) < 700 else s[:700] + '...'


def check_determinism(name, seeds):
    out = []
    base = None
    for s in seeds:
        try:
            o = subprocess_history([name], s)[0]
        except Exception as e:
            return [{'kind': 'exception', 'where': name, 'case': {'determinism': name, 'seeds': seeds},
                     'detail': str(e), 'what': 'operation failed in a fresh process'}]
        if base is None:
            base = o
        else:
            d = diff_obs(base, o)
            if d:
                out.append({'kind': 'nondeterministic', 'where': name, 'case': {'determinism': name, 'seeds': seeds},
                            'detail': 'PYTHONHASHSEED=%s vs %s: %s' % (seeds[0], s, d),
                            'what': '%s output depends on the hash seed' % name})
                break
    return out


def plan(tier, seed):
    names = list(OPS)
    L = 2 if tier == 'quick' else 3
    chunks = []
    hists = [list(h) for k in range(1, L + 1) for h in itertools.product(names, repeat=k)]
    if tier != 'quick':
        # length 3: all histories whose first two operations are both state-changing candidates or equal,
        # plus every history over the terminal-file operations
        core = ['insert_F1', 'insert_F2', 'subst_F3', 'bin_bare', 'punct_bin', 'heads_ptb', 'conv_brackets_multi', 'gram_leftright_rcg']
        hists = [h for h in hists if len(h) < 3 or (h[0] in core and h[1] in core)]
    per = 24
    for i in range(0, len(hists), per):
        chunks.append({'kind': 'hist', 'hists': hists[i:i + per]})
    chunks.append({'kind': 'bfs', 'depth': 3 if tier == 'quick' else 5})
    chunks.append({'kind': 'apirepeat'})
    chunks.append({'kind': 'volume'})
    disc_pool, cont_pool = concat_pool()
    for op_i in range(len(CONCAT_OPS)):
        chunks.append({'kind': 'concat', 'op': op_i})
    nseeds = 6 if tier == 'quick' else 12
    seeds = list(range(nseeds - 2)) + [(int(seed) * 7 + 11 * (i + 1)) % 4000 + 1 for i in range(2)]
    for i in range(0, len(names), 3):
        chunks.append({'kind': 'det', 'ops': names[i:i + 3], 'seeds': seeds})
    return {
        'chunks': chunks,
        'rule': '(1) every sequence of <= %d operations from an alphabet of %d (CLI runs of transform / grammar / '
                'treeanalysis / transitions with different files, formats, options and terminal files)%s executed in '
                'one freshly imported copy of trees.*, each output compared with its fresh-process reference; '
                '(2) BFS over hidden states (mechanical snapshot of all module-level objects, function attributes, '
                'defaults, closure cells and class attributes of trees.*): every operation applied in every reachable '
                'hidden state; (3) op(A+B) = op(A) (+) op(B) for every ordered pair from a treebank pool x %d '
                'operations (four of them API histories: read all then transform last-to-first; two interleaved readers; a second reader on another compressed treebank half-way through; stage-wise processing with analysis and refused writes in between); (4) every operation under %d PYTHONHASHSEED values in real subprocesses; (5) binarization called twice with the same grammar and the same options dict object; (6) one volume probe outside the bound: bracketed treebanks of more than a million characters, A+B against A and B. '
                'non-trivial = histories of length >= 2, concatenation pairs, determinism runs'
                % (L, len(names), '' if tier == 'quick' else ' (length 3: all histories whose first two operations are among the 8 state-relevant ones)',
                   len(CONCAT_OPS), nseeds),
        'bound': 'histories of length <= %d; BFS depth %d; %d hash seeds' % (L, 3 if tier == 'quick' else 5, nseeds),
        'exhaustive': True,
        'maxtasks': 8,
        'explanation': 'states = distinct hidden-state snapshots reached by the BFS; transitions = operation '
                       'executions in the BFS and in the enumerated histories; every transition is a real run of the '
                       'implementation compared with the fresh-process reference',
        'assumptions': ['Tree.newid is abstracted to "a counter" in the hidden-state snapshot (ids never reach an output)',
                        'writing the same tree object twice is not a history (DESIGN D6)',
                        'set-like files (.start .lex .oc .OC .gram .rcg) are compared as sorted lines',
                        'a terminal file keeps its name and content for the whole run (name reuse with new content is outside C18\'s quantifier)'],
    }


def check_volume_concat():
    """Volume probe (outside the exhaustive bound): a bracketed treebank B of more than a million characters (450 sentences
    of 13 long words) and a small treebank A; converting A+B must give what converting A and B separately gives, for
    the bracket and the discobracket reader (discobracket output shows words and absolute token positions)."""
    out = []
    wd = os.path.join(scratch(), 'c18v')
    os.makedirs(wd, exist_ok=True)
    sh = ((1, 2, 3), (4, (5, 6), 7), 8, (9, 10), 11, 12, 13)
    def bank(lo, hi):
        return [model.simple_mt(sh, sid=i + 1, labels='NP', words=['s%dw%d' % (i, j) + 'x' * 180 for j in range(13)]) for i in range(lo, hi)]
    A, B = bank(0, 30), bank(30, 480)
    for fmt, enc_fn in (('discobrackets', codecs.encode_discobrackets), ('brackets', codecs.encode_brackets)):
        texts = {}
        try:
            for name, mts in (('A', A), ('B', B), ('AB', A + B)):
                src, dest = os.path.join(wd, name + '.src'), os.path.join(wd, name + '.dest')
                with open(src, 'w', encoding='utf-8') as f:
                    f.write(enc_fn(mts))
                cli = fresh_import()
                st, so, se, exc = cli.run(['transform', src, dest, '--src-format', fmt, '--dest-format', 'discobrackets'])
                if st != 0:
                    raise RuntimeError('%s: exit status %r %s' % (name, st, exc))
                with open(dest, encoding='utf-8') as f:
                    texts[name] = f.read()
                os.unlink(src)
                os.unlink(dest)
            if texts['AB'] != texts['A'] + texts['B']:
                la, lb = texts['AB'].split('\n'), (texts['A'] + texts['B']).split('\n')
                k = next((i for i, (a, b) in enumerate(zip(la, lb)) if a != b), min(len(la), len(lb)))
                out.append({'kind': 'not-sentence-local', 'where': 'transform %s->discobrackets (volume probe)' % fmt,
                            'case': {'volume': True},
                            'detail': 'a file of %d characters: line %d of the result for A+B differs from result(A) (+) result(B): %r ... vs %r ...'
                                      % (len(enc_fn(A + B)), k + 1, la[k][:80] if k < len(la) else None, lb[k][:80] if k < len(lb) else None),
                            'what': 'processing the concatenation of two treebanks differs from processing them separately'})
        except Exception as e:
            out.append({'kind': 'exception', 'where': 'transform %s->discobrackets (volume probe)' % fmt, 'case': {'volume': True},
                        'detail': '%s: %s' % (type(e).__name__, e), 'what': 'concatenation check raised'})
    shutil.rmtree(wd, ignore_errors=True)
    return out


def check_api_repeat():
    """(5) The same API call made twice with the SAME argument objects gives the same result: binarization of one
    grammar object with one options dict (the only call of the tool that takes an options dict as an object)."""
    from trees import grammar as G
    out = []
    disc_pool, _ = concat_pool()
    n = 0
    for bank in disc_pool:
        if bank == [None]:
            continue
        g, lex = {}, {}
        for mt in bank:
            G.extract(_build_tree(mt), g, lex)
        for opts in ({'v': 1, 'h': 1}, {'v': 2, 'h': 1, 'nofanout': True}, {'v': 1, 'h': 0, 'nofanout': True}, {'h': 2, 'v': 0}):
            for reordering in (G.reordering_none, G.reordering_optimal):
                live = dict(opts)
                n += 1
                try:
                    r1 = G.binarize(g, markov_opts=live, reordering=reordering)
                    r2 = G.binarize(g, markov_opts=live, reordering=reordering)
                    r3 = G.binarize(g, markov_opts=dict(opts), reordering=reordering)
                    norm = lambda r: sorted((f, l, sorted(v.items())) for f, ls in r.items() for l, v in ls.items())
                    if not (norm(r1) == norm(r2) == norm(r3)):
                        out.append({'kind': 'history-dependent', 'where': 'grammar.binarize', 'case': {'api_repeat': True},
                                    'detail': 'binarize called twice with the same grammar and the same options dict object %r gives '
                                              'different grammars (labels %r vs %r vs fresh dict %r)'
                                              % (opts, sorted(set(f[-1] for f in r1))[:4], sorted(set(f[-1] for f in r2))[:4],
                                                 sorted(set(f[-1] for f in r3))[:4]),
                                    'what': 'binarize: the second call with the same argument objects differs from the first'})
                except Exception as e:
                    out.append({'kind': 'exception', 'where': 'grammar.binarize', 'case': {'api_repeat': True},
                                'detail': '%s: %s' % (type(e).__name__, e), 'what': 'binarize raised'})
    return out, n


def _build_tree(mt):
    from ..bridge import build
    return build(mt)


def check_case(case):
    if 'volume' in case:
        return check_volume_concat()
    if 'api_repeat' in case:
        return check_api_repeat()[0]
    if 'history' in case:
        return check_history(case['history'])
    if 'concat' in case:
        return check_concat(case['concat'], case['a'], case['b'])
    return check_determinism(case['determinism'], case['seeds'])


def run_chunk(chunk):
    res = Result()
    kind = chunk['kind']
    if kind == 'hist':
        for h in chunk['hists']:
            vs = check_history(h)
            res.evals += 1
            res.transitions += len(h)
            res.nontrivial += 1 if len(h) >= 2 else 0
            res.outcome((tuple(h), len(vs)))
            for v in vs:
                res.violation(v['kind'], v['where'], v['case'], v['detail'], v['what'])
        res.sample({'history': chunk['hists'][-1]})
    elif kind == 'apirepeat':
        vs, n = check_api_repeat()
        res.evals += n
        res.nontrivial += n
        res.transitions += 3 * n
        res.outcome(('apirepeat', len(vs)))
        for v in vs:
            res.violation(v['kind'], v['where'], v['case'], v['detail'], v['what'])
    elif kind == 'volume':
        vs = check_volume_concat()
        res.evals += 2
        res.nontrivial += 2
        res.outcome(('volume', len(vs)))
        for v in vs:
            res.violation(v['kind'], v['where'], v['case'], v['detail'], v['what'])
        res.sample({'volume probe': 'bracketed treebanks of > 1 000 000 characters, A+B vs A, B'})
    elif kind == 'bfs':
        check_bfs(chunk['depth'], res)
        res.evals += res.transitions
    elif kind == 'concat':
        disc_pool, cont_pool = concat_pool()
        fmt = CONCAT_OPS[chunk['op']][0]
        n = len(cont_pool if fmt.startswith('brackets') else disc_pool)
        for ia in range(n):
            for ib in range(n):
                vs = check_concat(chunk['op'], ia, ib)
                res.evals += 1
                res.nontrivial += 1
                res.outcome((chunk['op'], ia, ib, len(vs)))
                for v in vs:
                    res.violation(v['kind'], v['where'], v['case'], v['detail'], v['what'])
        res.sample({'concatenation': _opname(CONCAT_OPS[chunk['op']][1]), 'pairs': n * n})
    else:
        for name in chunk['ops']:
            vs = check_determinism(name, chunk['seeds'])
            res.evals += len(chunk['seeds'])
            res.nontrivial += len(chunk['seeds'])
            res.outcome((name, len(vs)))
            for v in vs:
                res.violation(v['kind'], v['where'], v['case'], v['detail'], v['what'])
        res.sample({'determinism': chunk['ops'], 'hash_seeds': chunk['seeds']})
    return res


if __name__ == '__main__':
    _main(sys.argv[1:])
