"""C02 Writers encode every tree faithfully in each output format."""
import io
import itertools
from .. import model, sweep, codecs
from ..runner import Result
from ..bridge import build, quiet, all_nodes, cli_options

from trees import treeoutput

ID = 'C02'
LEVEL = 'exploration'
TECHNIQUE = 'bounded exhaustive enumeration of API-built trees x alphabets x output-option subsets, independent decoders of every format'

SPECIAL = ['&', '<"\'>', 'ä日', '(', ')', 'a[b', '{}', '-LRB-', 'x' * 7, 'x' * 8, 'y' * 15, 'z' * 16, 'q' * 17, '#', '*T*-1',
           'v' * 23, 'w' * 24, 'u' * 33,
           # text that looks like an XML reference, and words that are not in Unicode NFC (must come back code point by code point)
           '&amp;', '&#8217;', '&lt;x&gt;', 'u\u0308ber', 'caf\u00e9', 'cafe\u0301', '\u212b', '\u2126']
LABEL_OPTS = ['gf', 'gf_terminals', 'mark_heads_marking', 'boyd_split_marking', 'boyd_split_numbering']
FORMAT_OPTS = {
    'export': ['export_four'] + LABEL_OPTS + ['gf_separator'],
    'brackets': LABEL_OPTS + ['gf_separator', 'brackets_emptyroot', 'brackets_skipdisco'],
    'discobrackets': LABEL_OPTS + ['gf_separator', 'brackets_emptyroot'],
    'tigerxml': [],
    'terminals': ['terminals_one', 'terminals_pos'],
}
REPL = [('(', 'LRB'), ('-LRB-', 'LRB'), ('[', 'LSB'), ('-LSB-', 'LSB'), ('{', 'LCB'), ('-LCB-', 'LCB'),
        (')', 'RRB'), ('-RRB-', 'RRB'), (']', 'RSB'), ('-RSB-', 'RSB'), ('}', 'RCB'), ('-RCB-', 'RCB')]


def plan(tier, seed):
    specs = [(1, 1), (2, 1), (3, 1), (4, 0)] if tier == 'quick' else [(1, 2), (2, 2), (3, 1), (4, 1), (5, 0)]
    dev = 2 if tier == 'quick' else 3
    return {
        'chunks': sweep.shape_chunks(specs, per_chunk=2, big=True, dev=dev) + [{'kind': 'cli-directory'}],
        'rule': 'every hierarchy over n tokens (<= u unary, discontinuous included) built through the tree API x '
                'variants {plain words; rotations of the special alphabet %r incl. XML-special, non-ASCII, '
                'parenthesis and tab-stop-length words; lemma / morph / edge / all three = None} x 5 writers x every '
                'subset of <= %d of the format\'s documented options (gf_separator #); decoded by independent '
                'decoders. non-trivial = distinct (tree variant, format, options) cases with special words, a '
                'None field, a gap or at least one option' % (SPECIAL, dev),
        'bound': ', '.join('n=%d:u<=%d' % s for s in specs) + '; option subsets of size <= %d' % dev,
        'exhaustive': True,
        'assumptions': ['directory mode of `treetools transform` (files named like split parts, converted twice) must leave one complete, current output file per source file',
                        'head/split flags are present on every node when the corresponding option is on (DESIGN D5)',
                        'decoration options are not combined with the TIGER-XML writer (it has native edge labels)',
                        'words contain no whitespace and do not look like #NNN'],
    }


def map_parens(s):
    if s is None:
        return s
    for a, b in REPL:
        s = s.replace(a, b)
    return s


def decorate_label(label, edge, is_cons, flags, opts):
    out = label
    if 'gf' in opts and edge is not None and not edge.startswith('-') and (is_cons or 'gf_terminals' in opts):
        out += (str(opts['gf_separator']) if 'gf_separator' in opts else '-') + edge
    if 'mark_heads_marking' in opts and flags['head']:
        out += "'"
    if 'boyd_split_marking' in opts and flags['split']:
        out += '*'
    if 'boyd_split_numbering' in opts and flags['split']:
        out += str(flags['block_number'])
    return out


def flags_for(path):
    return {'head': (path[-1] == 0) if path else False, 'split': len(path) % 2 == 1, 'block_number': len(path) + 1}


def set_flags(t, mt):
    """Attach head/split flags to every library node (by model path)."""
    def rec(x, nd, path):
        x.data.update(flags_for(path))
        if not isinstance(nd, int):
            ks = sorted(x.children, key=lambda c: min(l.data['num'] for l in _leaves(c)))
            for i, (c, k) in enumerate(zip(ks, model.canon_mt(nd)[2])):
                rec(c, k, path + (i,))
    rec(t, model.canon_mt(mt.root), ())


def _leaves(x):
    if not x.children:
        return [x]
    out = []
    for c in x.children:
        out.extend(_leaves(c))
    return out


def variants(sh, vi):
    """Tree variants for a shape.  Yields (name, MT, none_fields)."""
    n = len(model.leaves(sh))
    edges = ['HD', 'NK', '--', 'SB', '-X']
    root = model.decorate(sh, lambda p, s: 'N' + ''.join(map(str, p)), lambda p, s: edges[(sum(p) + len(p)) % len(edges)])

    def toks(words):
        return model.mk_tokens(n, words=words, pos=['P%d' % (i + 1) if i % 3 else '$(' for i in range(n)],
                               lemma=['l' * (1 + 23 * (i % 2)) + str(i) for i in range(n)], morph=['m' * [1, 8, 15, 16, 17][i % 5] for i in range(n)],
                               edge=[edges[i % len(edges)] for i in range(n)])
    yield 'plain', model.MT(12, toks(['w%d' % (i + 1) for i in range(n)]), root), ()
    xroot = model.decorate(sh, lambda p, s: ['N&', 'N<x>', 'N"q"', "N'a"][(sum(p) + len(p)) % 4] + ''.join(map(str, p)),
                           lambda p, s: ['H&D', 'N<K', '--', 'S"B'][(sum(p) + len(p)) % 4])
    yield 'xml-labels', model.MT(5, toks(['w%d' % (i + 1) for i in range(n)]), xroot), ()
    # terminals and constituents sharing label, edge and flags (decorations must still differ by node kind)
    sroot = model.decorate(sh, lambda p, s: 'X', lambda p, s: 'SB')
    stoks = model.mk_tokens(n, words=['w%d' % (i + 1) for i in range(n)], pos=['X'] * n, lemma=['l'] * n,
                            morph=['m'] * n, edge=['SB'] * n)
    yield 'shared-labels', model.MT(4, stoks, sroot), ()
    for rot in range(3):
        ws = [SPECIAL[(vi * 3 + rot * 5 + i * 4) % len(SPECIAL)] for i in range(n)]
        yield 'special%d' % rot, model.MT(7, toks(ws), root), ()
    for none in (('lemma',), ('morph',), ('edge',), ('lemma', 'morph', 'edge')):
        yield 'none-' + '+'.join(none), model.MT(3, toks(['w%d' % (i + 1) for i in range(n)]), root), none


def option_subsets(fmt, dev):
    names = FORMAT_OPTS[fmt]
    for r in range(0, min(dev, len(names)) + 1):
        for sub in itertools.combinations(names, r):
            if 'gf_separator' in sub and 'gf' not in sub:
                continue
            yield {k: ('#' if k == 'gf_separator' else True) for k in sub}
    if fmt in ('export', 'brackets', 'discobrackets'):
        yield {'gf': True, 'gf_terminals': True, 'gf_separator': '#'}
        yield {'gf': True, 'gf_separator': 0}       # `--dest-opts gf gf_separator:0`
        yield {k: True for k in LABEL_OPTS}


def build_variant(mt, none, order=None):
    t = build(mt, child_order=order)
    for x in all_nodes(t):
        for f in none:
            x.data[f] = None
    set_flags(t, mt)
    return t


def expected_struct(mt, none, opts, paren_map, with_edges, skip_root_label=False):
    """Model of what must be decodable: decorated labels, defaulted fields."""
    def edge_of(e):
        return None if 'edge' in none else e

    def rec(nd, path):
        if isinstance(nd, int):
            return nd
        lab = decorate_label(nd[0], edge_of(nd[1]) if path else ('--' if 'edge' not in none else None), True, flags_for(path), opts)
        if path == () and skip_root_label:
            lab = ''
        e = (nd[1] if 'edge' not in none else '--') if with_edges else None
        return (lab, e, tuple(rec(k, path + (i,)) for i, k in enumerate(model.canon_mt(nd)[2])))
    root = rec(model.canon_mt(mt.root), ())
    paths = {}

    def index(nd, path):
        if isinstance(nd, int):
            paths[nd] = path
        else:
            for i, k in enumerate(model.canon_mt(nd)[2]):
                index(k, path + (i,))
    index(model.canon_mt(mt.root), ())
    toks = []
    for i, tk in enumerate(mt.toks):
        e = edge_of(tk['edge'])
        pos = tk['pos']
        word = tk['word']
        if paren_map:
            pos, word, e = map_parens(pos), map_parens(word), map_parens(e)
        d = {'word': word, 'pos': decorate_label(pos, e, False, flags_for(paths[i + 1]), opts),
             'lemma': '--' if 'lemma' in none else tk['lemma'],
             'morph': '--' if 'morph' in none else tk['morph'],
             'edge': '--' if 'edge' in none else tk['edge']}
        toks.append(d)
    return root, toks


class _AsciiOnly(io.StringIO):
    def write(self, text):
        text.encode('ascii')
        return io.StringIO.write(self, text)


def failed_call(fmt, mt):
    writer = getattr(treeoutput, fmt)
    for stream, kw in ((io.StringIO(), {'mark_heads_marking': True}), (_AsciiOnly(), {})):
        victim = build(model.MT(mt.sid, [dict(tk, word='w\u00e4' + tk['word']) for tk in mt.toks], mt.root))
        for x in all_nodes(victim):
            x.data.pop('head', None)
        try:
            writer(victim, stream, **kw)
        except Exception:
            pass


def check_one(mtj, none, fmt, opts, order=None):
    mt = model.MT.from_json(mtj)
    none = tuple(none)
    case = {'mt': mtj, 'none': list(none), 'fmt': fmt, 'opts': opts, 'order': order}
    out = []

    def bad(kind, detail):
        out.append({'kind': kind, 'where': 'treeoutput.' + fmt, 'case': case,
                    'detail': '%s [tree %s, None fields %r, options %r]' % (detail, model.mt_str(mt.root, mt.toks), none, opts),
                    'what': '%s writer: %s' % (fmt, kind)})
    t = build_variant(mt, none, order)
    disc = model.mt_tree_gap_degree(mt.root) > 0
    if mt.n() % 2 == 0:
        # a failed call is part of the history: on every other tree the same writer was first asked for head marking on
        # a tree without head marks (the writer raises half-way through the tree) and for a stream that cannot encode
        # a word; what it wrote or kept then must not show in the write that is checked
        failed_call(fmt, mt)
    stream = io.StringIO()
    try:
        lib_opts = cli_options(opts)        # as --dest-opts gives them; expectations use `opts`
        getattr(treeoutput, fmt + '_begin')(stream, **lib_opts)
        getattr(treeoutput, fmt)(t, stream, **lib_opts)
        getattr(treeoutput, fmt + '_end')(stream, **lib_opts)
        err = None
    except Exception as e:
        err = e
    text = stream.getvalue()
    if fmt == 'brackets' and disc:
        if 'brackets_skipdisco' in opts:
            if err is not None or text != '':
                bad('skipdisco', 'discontinuous tree with brackets_skipdisco: error %r, output %r' % (err, text))
        elif not isinstance(err, ValueError):
            bad('disco-not-refused', 'discontinuous tree was not refused with ValueError (error %r, output %r)' % (err, text[:80]))
        # a tree for which nothing was written is still the user's tree: the usual fallback (write the refused
        # ones in another format) must show the original tokens
        from ..bridge import canon as _canon
        if not out and _canon(t) != _canon(build_variant(mt, none, order)):
            fb = io.StringIO()
            try:
                treeoutput.export(t, fb, export_four=True)
                shown = [(x['word'], x['pos']) for x in codecs.decode_export(fb.getvalue(), version=4)[0].toks]
            except Exception as e:
                shown = '%s: %s' % (type(e).__name__, e)
            bad('refused-but-changed', 'the bracket writer refused / skipped the discontinuous tree but changed it in place; '
                'written in export format afterwards it shows %r' % (shown,))
        return out
    if err is not None:
        bad('exception', '%s: %s' % (type(err).__name__, err))
        return out
    try:
        if fmt == 'export':
            v = 4 if 'export_four' in opts else 3
            got = codecs.decode_export(text, version=v)
            root, toks = expected_struct(mt, none, opts, False, True)
            root = ('VROOT', '--', root[2])
            fields = ['word', 'pos', 'morph', 'edge'] + (['lemma'] if v == 4 else [])
            cmp_one(bad, got, mt.sid, root, toks, fields, True)
        elif fmt == 'tigerxml':
            got = codecs.decode_tigerxml(text)
            root, toks = expected_struct(mt, none, {}, False, True)
            root = (root[0], '--', root[2])
            cmp_one(bad, got, mt.sid, root, toks, ['word', 'pos', 'lemma', 'morph', 'edge'], True)
        elif fmt in ('brackets', 'discobrackets'):
            dec = codecs.decode_brackets(text) if fmt == 'brackets' else codecs.decode_discobrackets(text)
            root, toks = expected_struct(mt, none, opts, True, False, skip_root_label='brackets_emptyroot' in opts)
            if len(dec) != 1:
                bad('tree-count', '%d trees decoded from %r' % (len(dec), text))
            else:
                groot, gtoks = dec[0]
                got = [model.MT(None, [dict(x, lemma=None, morph=None, edge=None) for x in gtoks], model.canon_mt(groot))]
                cmp_one(bad, got, None, root, toks, ['word', 'pos'], False)
        else:
            sents = codecs.decode_terminals(text, one_per_line='terminals_one' in opts, pos='terminals_pos' in opts)
            exp = [[(tk['word'], tk['pos'] if 'terminals_pos' in opts else None) for tk in mt.toks]]
            if sents != exp:
                bad('terminals', 'decoded %r, expected %r' % (sents, exp))
    except codecs.DecodeError as e:
        bad('undecodable', '%s; output was %r' % (e, text[:300]))
    return out


def cmp_one(bad, got, sid, root, toks, fields, edges):
    if len(got) != 1:
        bad('tree-count', '%d trees decoded' % len(got))
        return
    g = got[0]
    if sid is not None and g.sid != sid:
        bad('sid', 'sentence id %r, expected %r' % (g.sid, sid))
    if len(g.toks) != len(toks):
        bad('tokens', '%d tokens, expected %d' % (len(g.toks), len(toks)))
        return
    for i, (a, b) in enumerate(zip(toks, g.toks)):
        for f in fields:
            if a[f] != b.get(f):
                bad('token-field', 'token %d %s: wrote %r, expected %r' % (i + 1, f, b.get(f), a[f]))

    def proj(nd):
        if isinstance(nd, int):
            return nd
        return (nd[0], nd[1] if edges else None, tuple(proj(k) for k in model.canon_mt(nd)[2]))
    if proj(model.canon_mt(g.root)) != proj(model.canon_mt(root)):
        bad('structure', 'decoded %s, expected %s' % (model.mt_str(model.canon_mt(g.root)), model.mt_str(model.canon_mt(root))))


def check_case(case):
    if case.get('dir'):
        from .c03 import check_directory
        with quiet():
            return check_directory(case['a'], case['b'], case['src'], case['dest'])
    with quiet():
        return check_one(case['mt'], case['none'], case['fmt'], case['opts'], case.get('order'))


def run_chunk(chunk):
    if chunk.get('kind') == 'cli-directory':
        # a directory of files through the command line (names as `--split` gives them; a second run over the same directory)
        from .c03 import check_directory, pool
        res = Result()
        P = pool(False)
        with quiet():
            for src, dest in [('export3', 'export3'), ('export4', 'export4'), ('export3', 'tigerxml'), ('export3', 'discobrackets')]:
                vs = check_directory([m.to_json() for m in P[:2]], [m.to_json() for m in P[2:4]], src, dest)
                res.evals += 1
                res.nontrivial += 1
                res.outcome(('cli-directory', src, dest, len(vs)))
                for v in vs:
                    res.violation(v['kind'], v['where'], v['case'], v['detail'], v['what'])
        res.sample({'cli': 'treetools transform DIR ignored --src-format S --dest-format D', 'files': ['part.0', 'part.1']})
        return res
    res = Result()
    with quiet():
        vi = chunk['lo']
        for sh, k in sweep.iter_shapes(chunk):
            vi += 1
            disc = not model.is_continuous(sh)
            for name, mt, none in variants(sh, vi):
                j = mt.to_json()
                for fmt in FORMAT_OPTS:
                    for opts in option_subsets(fmt, chunk['dev']):
                        vs = check_one(j, none, fmt, opts, None if res.evals % 2 else 'rev')
                        res.evals += 1
                        if name != 'plain' or opts or disc:
                            res.nontrivial += 1
                        res.outcome((mt.key(), none, fmt, repr(sorted(opts.items())), len(vs)))
                        for v in vs:
                            res.violation(v['kind'], v['where'], v['case'], v['detail'], v['what'])
            res.sample({'tree': model.mt_str(mt.root, mt.toks), 'variant': name, 'formats': list(FORMAT_OPTS)})
    return res


# --- non-initial states: the oracle of this property in every state of the live-state pool
# (vt/livepool.py: BFS over live objects; vt/liveoracles.py: the oracles)
from .. import liveoracles as _lo
_plan0, _run_chunk0, _check_case0 = plan, run_chunk, check_case


def plan(tier, seed):
    p = _plan0(tier, seed)
    p['chunks'] = list(p['chunks']) + _lo.plan_chunks(tier)
    p['assumptions'] = list(p.get('assumptions', [])) + [_lo.assumption()]
    return p


def run_chunk(chunk):
    if chunk.get('kind') == 'live':
        return _lo.run_chunk(ID, chunk, Result())
    return _run_chunk0(chunk)


def check_case(case):
    if isinstance(case, dict) and isinstance(case.get('live'), dict):
        return _lo.replay(case)
    return _check_case0(case)
