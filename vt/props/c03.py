"""C03 Any-to-any conversion through the command line is total and lossless."""
import os
import gzip
import shutil
import itertools
import contextlib
from .. import model, codecs, cli
from ..runner import Result, scratch
from ..bridge import quiet, monitor, extract
from .c01 import run_reader, map_parens

from trees import treeinput

ID = 'C03'
LEVEL = 'exploration'
TECHNIQUE = 'bounded exhaustive enumeration of small treebanks x (source, destination) format pairs and chains x deviations, real CLI entry point executed, independent decoders'

SRC = ['export3', 'export4', 'brackets', 'discobrackets', 'tigerxml']
DEST = ['export3', 'export4', 'brackets', 'discobrackets', 'tigerxml', 'terminals']
CARRY = {
    'export3': {'word', 'pos', 'morph', 'edge', 'sid', 'struct'},
    'export4': {'word', 'pos', 'morph', 'edge', 'lemma', 'sid', 'struct'},
    'tigerxml': {'word', 'pos', 'morph', 'edge', 'lemma', 'sid', 'struct'},
    'brackets': {'word', 'pos', 'struct'},
    'discobrackets': {'word', 'pos', 'struct'},
    'terminals': {'word'},
}
EXT = {'export3': 'export', 'export4': 'export', 'brackets': 'mrg', 'discobrackets': 'dbr', 'tigerxml': 'xml',
       'terminals': 'txt'}


def fmt_name(f):
    return 'export' if f.startswith('export') else f


def plan(tier, seed):
    nmax = 3 if tier == 'quick' else 4
    chunks = []
    for src in SRC:
        for dest in DEST:
            chunks.append({'kind': 'pairs', 'src': src, 'dest': dest, 'nmax': nmax})
    readers = ['export3', 'export4', 'brackets', 'discobrackets', 'tigerxml']
    for a in readers:
        for b in readers:
            chunks.append({'kind': 'chains', 'a': a, 'b': b, 'tier': tier})
    chunks.append({'kind': 'deviations', 'tier': tier})
    chunks.append({'kind': 'trans'})
    chunks.append({'kind': 'subprocess'})
    return {
        'chunks': chunks,
        'rule': 'treebanks: every hierarchy over n <= %d tokens (<= 1 unary, VROOT root) as a one-sentence corpus '
                'plus all 1..3-sentence corpora from a feature pool; every (source, destination) pair of 5 x 6 '
                'formats through `treetools transform`; chains A->B->A and A->B->C over the 5 readable formats; '
                'deviations: encodings latin-1/utf-16 on either side, gzip source, directory source, reader and '
                'writer options; %d transformation pipelines through --trans/--params compared with the same functions called '
                'through the API; a fixed subset re-run as a subprocess (conformance of the in-process path). '
                'non-trivial = conversions between different formats or of discontinuous / multi-sentence corpora'
                % (nmax, len(TRANS_COMBOS)),
        'bound': 'n <= %d tokens, <= 3 sentences, chains of length <= 2' % nmax,
        'exhaustive': True,
        'assumptions': ['root label VROOT (export cannot carry another one, DESIGN D4)',
                        'main() is executed in-process; a subset is re-run as a real subprocess on every run'],
    }


# ---------------------------------------------------------------- corpora
def decorated(sh, salt, sid):
    n = len(model.leaves(sh))
    edges = ['HD', 'NK', 'SB', 'OA']
    labels = ['S', 'NP', 'VP', 'PP', 'AP']
    words = ['a', 'b,', '&c', '<d>', 'e"', "f'", 'gä', 'h#', '#', 'Donaudampfschifffahrtsgesellschaft', '#1',
             '&amp;', 'cafe\u0301', '\u212b', '%', '&#8217;']
    root = model.decorate(sh, lambda p, s: labels[(sum(p) + len(p) + salt) % len(labels)],
                          lambda p, s: edges[(sum(p) + salt) % len(edges)])
    toks = model.mk_tokens(n, words=[words[(salt + i) % len(words)] + str(i) for i in range(n)],
                           pos=['T%d' % ((i + salt) % 3) for i in range(n)],
                           lemma=['l%d' % i for i in range(n)], morph=['m%d' % i if (i + salt) % 4 else 'Nom.Sg.Masc.3.Pres' for i in range(n)],
                           edge=[edges[(i + salt + 1) % len(edges)] for i in range(n)])
    return model.MT(sid, toks, root)


def special_words(sh, words, sid):
    m = decorated(sh, 0, sid)
    for i, tk in enumerate(m.toks):
        tk['word'] = words[i % len(words)]
    return m


def single_corpora(nmax, continuous):
    out = []
    for n in range(1, nmax + 1):
        for i, (sh, _) in enumerate(model.shapes_with_unary(n, 1)):
            if continuous and not model.is_continuous(sh):
                continue
            out.append([decorated(sh, i, sid=i + 2)])
    return out


def pool(continuous):
    shs = [(1, 2), ((1, 2), 3), (((1,),),), (1, (2, (3, 4))), ((1, 2, 3),)]
    if not continuous:
        shs += [((1, 3), 2), ((1, 3, 5), 2, 4), (((1, 4), 2), 3)]
    return [decorated(sh, i, sid=10 * (i + 1)) for i, sh in enumerate(shs)]


def multi_corpora(continuous, kmax=3):
    P = pool(continuous)
    out = []
    for k in range(2, kmax + 1):
        for combo in itertools.product(range(len(P)), repeat=k):
            if k == 3 and sum(combo) % 5:
                continue
            out.append([model.MT(P[c].sid + j, P[c].toks, P[c].root) for j, c in enumerate(combo)])
    return out


# ---------------------------------------------------------------- encode / decode / project
def encode(mts, fmt):
    if fmt == 'export3':
        return codecs.encode_export(mts, version=3)
    if fmt == 'export4':
        return codecs.encode_export(mts, version=4)
    if fmt == 'brackets':
        return codecs.encode_brackets(mts)
    if fmt == 'discobrackets':
        return codecs.encode_discobrackets(mts)
    return codecs.encode_tigerxml(mts)


def project(mts, carried, paren=False):
    """Model of a corpus after passing through formats that carry only `carried`."""
    out = []
    for k, m in enumerate(mts):
        toks = []
        for t in m.toks:
            d = {'word': t['word'], 'pos': t['pos'] if 'pos' in carried else None,
                 'lemma': t['lemma'] if 'lemma' in carried else '--',
                 'morph': t['morph'] if 'morph' in carried else '--',
                 'edge': t['edge'] if 'edge' in carried else '--'}
            if paren:
                d['word'], d['pos'] = map_parens(d['word']), map_parens(d['pos'])
            toks.append(d)

        def rec(nd):
            if isinstance(nd, int):
                return nd
            return (nd[0], nd[1] if 'edge' in carried else '--', tuple(rec(x) for x in model.canon_mt(nd)[2]))
        root = rec(m.root)
        root = (root[0], '--', root[2])
        out.append(model.MT(m.sid if 'sid' in carried else k + 1, toks, root))
    return out


def decode_file(path, fmt, enc='utf-8'):
    """Independent decode of a destination file -> list of MT (fields not carried are None)."""
    with open(path, 'rb') as f:
        data = f.read()
    if fmt == 'tigerxml':
        return codecs.decode_tigerxml(data)
    text = data.decode(enc)
    if fmt in ('export3', 'export4'):
        return codecs.decode_export(text, version=int(fmt[-1]))
    if fmt == 'brackets':
        return [model.MT(None, [dict(t, lemma=None, morph=None, edge=None) for t in toks], model.canon_mt(r))
                for r, toks in codecs.decode_brackets(text)]
    if fmt == 'discobrackets':
        return [model.MT(None, [dict(t, lemma=None, morph=None, edge=None) for t in toks], model.canon_mt(r))
                for r, toks in codecs.decode_discobrackets(text)]
    return [model.MT(None, [{'word': w, 'pos': None} for w, _ in s], None) for s in codecs.decode_terminals(text)]


def compare(exp, got, fmt, label):
    """exp: projected models; got: decoded models.  Returns list of difference strings."""
    carried = CARRY[fmt]
    diffs = []
    if len(exp) != len(got):
        return ['%s: %d sentences, expected %d' % (label, len(got), len(exp))]
    for k, (e, g) in enumerate(zip(exp, got)):
        if 'sid' in carried and e.sid != g.sid:
            diffs.append('%s: sentence %d has id %r, expected %r' % (label, k + 1, g.sid, e.sid))
        if len(e.toks) != len(g.toks):
            diffs.append('%s: sentence %d has %d tokens, expected %d' % (label, k + 1, len(g.toks), len(e.toks)))
            continue
        for i, (a, b) in enumerate(zip(e.toks, g.toks)):
            for f in ('word', 'pos', 'lemma', 'morph', 'edge'):
                if f in carried and a[f] != b.get(f):
                    diffs.append('%s: sentence %d token %d %s is %r, expected %r' % (label, k + 1, i + 1, f, b.get(f), a[f]))
        if 'struct' in carried:
            def proj(nd):
                if isinstance(nd, int):
                    return nd
                return (nd[0], nd[1] if 'edge' in carried else None, tuple(proj(x) for x in model.canon_mt(nd)[2]))
            pe, pg = proj(e.root), proj(g.root)
            if 'edge' in carried:
                pe, pg = (pe[0], None, pe[2]), (pg[0], None, pg[2])
            if pe != pg:
                diffs.append('%s: sentence %d structure %s, expected %s'
                             % (label, k + 1, model.mt_str(model.canon_mt(g.root)), model.mt_str(model.canon_mt(e.root))))
    return diffs[:6]


def tool_read(path, fmt, enc='utf-8'):
    trees_, err, so, se = run_reader(getattr(treeinput, fmt_name(fmt)), path, enc, quiet=True)
    if err is not None:
        raise codecs.DecodeError('the tool\'s %s reader fails on the tool\'s output: %s: %s' % (fmt_name(fmt), type(err).__name__, err))
    out = []
    for t in trees_:
        probs = monitor(t)
        if probs:
            raise codecs.DecodeError('the tool\'s reader yields an ill-formed tree: ' + '; '.join(probs))
        out.append(extract(t))
    return out


def convert(src_path, src_fmt, dest_path, dest_fmt, src_enc=None, dest_enc=None, src_opts=(), dest_opts=()):
    argv = ['transform', src_path, dest_path, '--src-format', fmt_name(src_fmt), '--dest-format', fmt_name(dest_fmt)]
    dopts = list(dest_opts) + (['export_four'] if dest_fmt == 'export4' else [])
    if src_enc:
        argv += ['--src-enc', src_enc]
    if dest_enc:
        argv += ['--dest-enc', dest_enc]
    if src_opts:
        argv += ['--src-opts'] + list(src_opts)
    if dopts:
        argv += ['--dest-opts'] + dopts
    return cli.run(argv), argv


def workdir():
    d = os.path.join(scratch(), 'c03')
    shutil.rmtree(d, ignore_errors=True)
    os.makedirs(d)
    return d


def check_chain(mtjs, fmts, dev=None):
    """Convert a corpus encoded in fmts[0] along fmts[1:], checking every destination file."""
    mts = [model.MT.from_json(j) for j in mtjs]
    dev = dev or {}
    case = {'corpus': mtjs, 'fmts': fmts, 'dev': dev}
    out = []

    def bad(kind, detail):
        out.append({'kind': kind, 'where': 'transform %s' % '->'.join(fmts), 'case': case,
                    'detail': '%s [corpus %s, deviation %r]' % (detail, [model.mt_str(m.root, m.toks) for m in mts], dev),
                    'what': 'conversion %s: %s' % ('->'.join(fmt_name(f) for f in fmts), kind)})
    d = workdir()
    disc = any(model.mt_tree_gap_degree(m.root) > 0 for m in mts)
    src_enc = dev.get('src_enc')
    dest_enc = dev.get('dest_enc')
    text = encode(mts, fmts[0])
    if dev.get('src_layout'):
        lay = dict(dev['src_layout'])
        text = (codecs.encode_export(mts, version=3 if fmts[0] == 'export3' else 4, **lay) if fmts[0].startswith('export')
                else codecs.encode_tigerxml(mts, **lay) if fmts[0] == 'tigerxml' else codecs.encode_brackets(mts, **lay))
    if fmts[0] == 'tigerxml' and src_enc:
        text = codecs.encode_tigerxml(mts, encoding=src_enc)
    # file-level features: CRLF line ends, no final newline, odd directory / file names, relative paths
    if dev.get('eol') == 'crlf':
        text = text.replace('\n', '\r\n')
    if dev.get('final') == 'none':
        text = text.rstrip('\r\n')
    d_in = d_out = d
    if dev.get('path'):
        d_in, d_out = os.path.join(d, 'in put \u00fc (1)'), os.path.join(d, 'out dir [2]*')
        os.makedirs(d_in)
        os.makedirs(d_out)
    path = os.path.join(d_in, 'f0.' + EXT[fmts[0]])
    if dev.get('names') == 'tmp':
        path = os.path.join(d_in, 'f1.' + EXT[fmts[1]] + '.tmp')        # the source is called <destination>.tmp
    elif dev.get('names') == 'gz':
        path = os.path.join(d_in, 'f1.' + EXT[fmts[1]])                 # the source is called <destination>.gz
    data = text.encode(src_enc or 'utf-8')
    if dev.get('gz') == 'members':
        # a gzip file of three members (cat a.gz b.gz c.gz, pigz -i, bgzip), cut at arbitrary bytes
        path += '.gz'
        cut = [0, len(data) // 3, 2 * len(data) // 3, len(data)]
        with open(path, 'wb') as f:
            for a, b in zip(cut, cut[1:]):
                f.write(gzip.compress(data[a:b]))
    elif dev.get('gz'):
        path += '.gz'
        with gzip.open(path, 'wb') as f:
            f.write(data)
    else:
        with open(path, 'wb') as f:
            f.write(data)
    carried = set(CARRY[fmts[0]])
    paren = False
    cur_enc = src_enc
    for step, dest in enumerate(fmts[1:]):
        dpath = os.path.join(d_out, 'f%d.%s' % (step + 1, EXT[dest]))
        last = step == len(fmts) - 2
        if dev.get('dest_exists'):
            # the destination exists already (an older, longer file): it must be replaced
            with open(dpath, 'w', encoding='utf-8') as f:
                f.write('#BOS 999 leftover of an earlier run\n' * 3000)
        cpath, cdpath, old_cwd = path, dpath, None
        if dev.get('path') == 'relative':
            old_cwd = os.getcwd()
            os.chdir(d)
            cpath, cdpath = os.path.relpath(path, d), os.path.join('.', os.path.relpath(dpath, d))
        try:
            (st, so, se, exc), argv = convert(cpath, fmts[step], cdpath, dest,
                                              src_enc=cur_enc, dest_enc=dest_enc if last else None,
                                              src_opts=dev.get('src_opts', ()) if step == 0 else (),
                                              dest_opts=dev.get('dest_opts', ()) if last else ())
        finally:
            if old_cwd is not None:
                os.chdir(old_cwd)
        if dest == 'brackets' and disc:
            if 'brackets_skipdisco' in dev.get('dest_opts', ()):
                if st != 0:
                    bad('skipdisco-failed', 'exit status %r %s' % (st, cli.describe(exc)))
                else:
                    cont = [m for m in mts if model.mt_tree_gap_degree(m.root) == 0]
                    try:
                        diffs = compare(project(cont, carried & CARRY[dest]), decode_file(dpath, dest), dest, 'skipdisco output')
                        for x in diffs:
                            bad('content', x)
                    except codecs.DecodeError as e:
                        bad('undecodable', str(e))
            elif st == 0:
                bad('disco-not-refused', 'a discontinuous treebank was written in bracket format')
            return out
        if st != 0:
            bad('cli-failed', 'step %d (%s): exit status %r %s' % (step + 1, ' '.join(argv[3:]), st, cli.describe(exc)))
            return out
        before = set(carried)
        carried &= CARRY[dest]
        if dest in ('brackets', 'discobrackets'):
            paren = True
        exp = project(mts, carried, paren)
        if dev.get('expect'):
            exp = dev_expect(project(mts, before | {'struct'}, paren), dev, dest)
        try:
            got = decode_file(dpath, dest, (dest_enc if last else None) or 'utf-8')
            for x in compare(exp, got, dest, 'file %d (%s)' % (step + 1, fmt_name(dest))):
                bad('content', x)
            if dest != 'terminals' and not dev.get('dest_opts'):
                again = tool_read(dpath, dest, (dest_enc if last else None) or 'utf-8')
                for x in compare(exp, again, dest, 'file %d read by the tool' % (step + 1)):
                    bad('tool-reads-own-output', x)
        except codecs.DecodeError as e:
            bad('undecodable', 'file %d (%s): %s' % (step + 1, fmt_name(dest), e))
            return out
        except UnicodeDecodeError as e:
            bad('undecodable', 'file %d (%s): %s' % (step + 1, fmt_name(dest), e))
            return out
        path = dpath
        cur_enc = None
        if 'sid' not in CARRY[dest]:
            carried.discard('sid')
    return out


def dev_expect(exp, dev, dest):
    kind = dev['expect']
    out = []
    for k, m in enumerate(exp):
        sid = m.sid
        root, toks = m.root, [dict(t) for t in m.toks]
        if kind == 'continuous':
            sid = k + 1
        if kind == 'firstid':
            sid = dev['first'] + k
        if kind == 'gf':
            sep = dev.get('sep', '-')

            def rec(nd, is_root=True):
                if isinstance(nd, int):
                    return nd
                lab = nd[0]
                if not (is_root and dest.startswith('export')) and nd[1] not in (None,) and not nd[1].startswith('-'):
                    lab = nd[0] + sep + nd[1]
                return (lab, nd[1], tuple(rec(x, False) for x in nd[2]))
            root = rec(root)
        out.append(model.MT(sid, toks, root))
    return out


def check_directory(mtjs_a, mtjs_b, src, dest):
    a = [model.MT.from_json(j) for j in mtjs_a]
    b = [model.MT.from_json(j) for j in mtjs_b]
    case = {'dir': True, 'a': mtjs_a, 'b': mtjs_b, 'src': src, 'dest': dest}
    out = []

    def bad(kind, detail):
        out.append({'kind': kind, 'where': 'transform directory mode', 'case': case,
                    'detail': '%s [%s -> %s]' % (detail, src, dest), 'what': 'directory mode: ' + kind})
    d = workdir()
    sd = os.path.join(d, 'src[v2] dir')        # a name with glob metacharacters and a blank
    os.makedirs(sd)
    # as `transform --split` names its parts (the same stem, different extensions), and a source file whose name
    # ends in .dest (the output of an earlier directory run, moved here)
    names = ('part.0', 'part.1', 'old.dest')
    for name, mts in zip(names, (a, b, a)):
        with open(os.path.join(sd, name), 'w', encoding='utf-8') as f:
            f.write(encode(mts, src))
    (st, so, se, exc), argv = convert(sd, src, os.path.join(d, 'ignored'), dest)
    if st != 0:
        bad('cli-failed', 'exit status %r %s' % (st, cli.describe(exc)))
        return out
    if sorted(os.listdir(sd)) != sorted(names + tuple(n + '.dest' for n in names)):
        bad('directory-files', 'the source directory now holds %r' % sorted(os.listdir(sd)))
    for name, mts in zip(names, (a, b, a)):
        dp = os.path.join(sd, name + '.dest')
        if not os.path.exists(dp):
            bad('missing-output', '%s.dest was not written (files: %r)' % (name, sorted(os.listdir(sd))))
            continue
        try:
            carried = CARRY[src] & CARRY[dest]
            for x in compare(project(mts, carried, dest in ('brackets', 'discobrackets')), decode_file(dp, dest), dest, name + '.dest'):
                bad('content', x)
        except codecs.DecodeError as e:
            bad('undecodable', '%s.dest: %s' % (name, e))
    if src.startswith('export') and dest.startswith('export') and not out:
        # a second run over the same directory (it now also holds the *.dest files, which are export files):
        # every file is converted again, here to the other export version
        other = 'export4' if dest == 'export3' else 'export3'
        (st, so, se, exc), argv = convert(sd, src, os.path.join(d, 'ignored'), other)
        if st != 0:
            bad('cli-failed', 'second run over the directory: exit status %r %s' % (st, cli.describe(exc)))
            return out
        for name, mts in zip(names, (a, b, a)):
            for second, fn in enumerate((name + '.dest', name + '.dest.dest')):
                try:
                    # X.dest is made from the source X again; X.dest.dest from the X.dest of the first run
                    carried = CARRY[src] & CARRY[dest] & CARRY[other] if second else CARRY[src] & CARRY[other]
                    for x in compare(project(mts, carried, False), decode_file(os.path.join(sd, fn), other), other, fn + ' after the second run'):
                        bad('content', x)
                except (codecs.DecodeError, IOError) as e:
                    bad('undecodable', '%s after the second run (%s): %s' % (fn, other, e))
    return out


def check_lockstep(srcfmt):
    """Two conversions going on side by side in one process (a program that aligns a gold file with a system file): the
    sources are gzipped files with the SAME file name in two directories, each larger than an I/O buffer; trees are
    pulled from the two readers alternately and written to two destinations.  Each destination must hold its own corpus."""
    from trees import treeinput, treeoutput
    import io as _io
    out = []
    d = workdir()
    shapes = [((1, 2), 3), (1, (2, 3)), ((1, 2), (3, 4)), (1, 2, 3)]
    corp = {}
    for name in ('gold', 'test'):
        mts = []
        for i in range(160):
            sh = shapes[i % 4]
            n = len(model.leaves(sh))
            mts.append(model.simple_mt(sh, sid=i + 1, words=['%s%dw%d' % (name, i + 1, j + 1) for j in range(n)]))
        corp[name] = mts
        os.makedirs(os.path.join(d, name), exist_ok=True)
        text = codecs.encode_export(mts) if srcfmt == 'export' else codecs.encode_brackets(mts)
        with gzip.open(os.path.join(d, name, 'corpus.%s.gz' % srcfmt), 'wb') as f:
            f.write(text.encode('utf-8'))
    try:
        with contextlib.redirect_stdout(_io.StringIO()), contextlib.redirect_stderr(_io.StringIO()):
            readers = {name: getattr(treeinput, srcfmt)(os.path.join(d, name, 'corpus.%s.gz' % srcfmt), 'utf-8', quiet=True)
                       for name in corp}
            dests = {name: _io.StringIO() for name in corp}
            live = dict(readers)
            while live:
                for name in list(live):
                    t = next(live[name], None)
                    if t is None:
                        del live[name]
                    else:
                        treeoutput.export(t, dests[name])
        for name in corp:
            got = codecs.decode_export(dests[name].getvalue())
            want = [[tk['word'] for tk in m.toks] for m in corp[name]]
            have = [[tk['word'] for tk in m.toks] for m in got]
            if have != want:
                k = next((i for i, (a, b) in enumerate(zip(have, want)) if a != b), min(len(have), len(want)))
                out.append({'kind': 'lockstep', 'where': 'two conversions side by side (%s.gz sources of the same name)' % srcfmt,
                            'case': {'lockstep': srcfmt},
                            'detail': 'destination of %s/corpus.%s.gz: %d sentences (expected %d); sentence %d holds %r, expected %r'
                                      % (name, srcfmt, len(have), len(want), k + 1, have[k] if k < len(have) else None,
                                         want[k] if k < len(want) else None),
                            'what': 'a conversion delivers the sentences of another file converted at the same time'})
    except Exception as e:
        out.append({'kind': 'exception', 'where': 'two conversions side by side (%s.gz sources of the same name)' % srcfmt,
                    'case': {'lockstep': srcfmt}, 'detail': '%s: %s' % (type(e).__name__, e),
                    'what': 'two conversions side by side failed'})
    shutil.rmtree(d, ignore_errors=True)
    return out


def check_gf_transfer(mtjs, dest):
    """Reader option and writer option with the same name in one command line: bracketed source whose labels
    carry the function (LABEL-GF), `--src-opts gf_split` (default separator) and `--dest-opts gf gf_separator:#`.
    The destination must show LABEL#GF on the constituents."""
    mts = [model.MT.from_json(j) for j in mtjs]
    case = {'gf_transfer': True, 'corpus': mtjs, 'dest': dest}
    out = []

    def bad(kind, detail):
        out.append({'kind': kind, 'where': 'transform --src-opts gf_split --dest-opts gf gf_separator:#', 'case': case,
                    'detail': '%s [corpus %s, brackets -> %s]' % (detail, [model.mt_str(m.root, m.toks) for m in mts], dest),
                    'what': 'gf_split on the way in, gf with another separator on the way out: ' + kind})
    d = workdir()
    sp = os.path.join(d, 'in.mrg')
    dp = os.path.join(d, 'out')
    with open(sp, 'w', encoding='utf-8') as f:
        f.write(codecs.encode_brackets(mts, gf='-'))
    st, so, se, exc = cli.run(['transform', sp, dp, '--src-format', 'brackets', '--dest-format', dest.rstrip('34'),
                               '--src-opts', 'gf_split', '--dest-opts', 'gf', 'gf_separator:#']
                              + (['export_four'] if dest == 'export4' else []))
    if st != 0:
        bad('cli-failed', 'exit status %r %s' % (st, cli.describe(exc)))
        return out

    def rec(nd, is_root=True):
        if isinstance(nd, int):
            return nd
        lab = nd[0]
        if not (is_root and dest.startswith('export')) and nd[1] is not None and not nd[1].startswith('-'):
            lab = nd[0] + '#' + nd[1]
        return (lab, nd[1], tuple(rec(x, False) for x in nd[2]))
    exp = [model.MT(k + 1, m.toks, rec(m.root)) for k, m in enumerate(mts)]
    try:
        carried = CARRY['brackets'] & CARRY[dest]
        if dest.startswith('export'):
            carried = carried | {'edge'}
        for x in compare(project(exp, carried, dest in ('brackets', 'discobrackets')), decode_file(dp, dest), dest, 'destination'):
            bad('content', x)
    except codecs.DecodeError as e:
        bad('undecodable', str(e))
    return out


def check_cons_columns(mtjs, version):
    """Everything both formats can carry: the morphology (and, in export 4, lemma) column of the constituent
    lines of an export file survives an export -> export conversion."""
    mts = [model.MT.from_json(j) for j in mtjs]
    case = {'cons_columns': version, 'corpus': mtjs}
    out = []

    def bad(kind, detail):
        out.append({'kind': kind, 'where': 'transform export%d->export%d' % (version, version), 'case': case,
                    'detail': '%s [corpus %s]' % (detail, [model.mt_str(m.root, m.toks) for m in mts]),
                    'what': 'columns of constituent lines: ' + kind})
    d = workdir()
    sp, dp = os.path.join(d, 'in.export'), os.path.join(d, 'out.export')
    with open(sp, 'w', encoding='utf-8') as f:
        f.write(codecs.encode_export(mts, version=version, cons_morph='Gen.Pl.Fem', cons_lemma='--' if version == 3 else 'lem'))
    st, so, se, exc = cli.run(['transform', sp, dp, '--src-format', 'export', '--dest-format', 'export']
                              + (['--dest-opts', 'export_four'] if version == 4 else []))
    if st != 0:
        bad('cli-failed', 'exit status %r %s' % (st, cli.describe(exc)))
        return out
    try:
        cols = []
        codecs.decode_export(codecs.read_out(dp), version=version, cons_out=cols)
    except codecs.DecodeError as e:
        bad('undecodable', str(e))
        return out
    for k, sent in enumerate(cols):
        wrong = [(num, m, l) for num, m, l in sent if m != 'Gen.Pl.Fem' or (version == 4 and l != 'lem')]
        if wrong:
            bad('content', 'sentence %d: constituent lines carry (number, morph, lemma) %r, the source had Gen.Pl.Fem%s on every one'
                % (k + 1, wrong, ' / lem' if version == 4 else ''))
    return out


def check_subprocess(mtjs, src, dest):
    """Conformance of the in-process CLI path: same exit status and identical destination bytes."""
    mts = [model.MT.from_json(j) for j in mtjs]
    d = workdir()
    sp = os.path.join(d, 'in.' + EXT[src])
    with open(sp, 'w', encoding='utf-8') as f:
        f.write(encode(mts, src))
    (st, so, se, exc), argv = convert(sp, src, os.path.join(d, 'out1'), dest)
    st2, so2, se2 = cli.run_subprocess(argv[:2] + [os.path.join(d, 'out2')] + argv[3:])
    out = []
    same = os.path.exists(os.path.join(d, 'out1')) == os.path.exists(os.path.join(d, 'out2'))
    if same and os.path.exists(os.path.join(d, 'out1')):
        same = open(os.path.join(d, 'out1'), 'rb').read() == open(os.path.join(d, 'out2'), 'rb').read()
    if (st == 0) != (st2 == 0) or (st == 0 and not same):
        out.append({'kind': 'harness-conformance', 'where': 'cli in-process vs subprocess',
                    'case': {'sub': True, 'corpus': mtjs, 'src': src, 'dest': dest},
                    'detail': 'in-process status %r, subprocess status %r, identical output: %s; stderr %s'
                              % (st, st2, same, se2[-300:]),
                    'what': 'in-process execution of main() differs from the real command'})
    return out


TRANS_COMBOS = [
    (['root_attach'], [], []),
    (['root_attach', 'negra_mark_heads', 'boyd_split'], [], ['boyd_split_numbering']),
    (['negra_mark_heads', 'binarize'], [], ['mark_heads_marking']),
    (['mark_heads_by_rules', 'binarize'], ['mark_heads_preset:ptb', 'bare_bin_labels'], []),
    (['punctuation_root'], [], []),
    (['root_attach', 'punctuation_verylow'], [], []),
    (['root_attach', 'punctuation_symetrify'], ['relc:T1'], []),
    (['add_topnode', 'collapse_unary_chains'], [], []),
    (['filter_by_length'], ['filteroperator:lt', 'filtervalue:3'], []),
    (['filter_by_length', 'add_topnode'], ['filteroperator:gt', 'filtervalue:2'], []),
    (['filter_by_length'], ['filteroperator:gt', 'filtervalue:0'], []),
    (['filter_by_length'], ['filteroperator:eq', 'filtervalue:1'], []),
    (['punctuation_delete', 'add_topnode'], ['quiet'], []),
    (['insert_terminals', 'root_attach'], ['terminalfile:{terms}', 'quiet'], []),
]


def my_options(items):
    out = {}
    for it in items:
        if ':' in it:
            k, v = it.split(':', 1)
            out[k] = int(v) if v.isdigit() else v
        else:
            out[it] = True
    return out


def check_trans(mtjs, combo_i):
    """The glue of `treetools transform --trans ... --params ...`: the destination file must be what
    reader -> the named transformation functions in order (stop at None) -> writer give through the API."""
    import io as _io
    from trees import transform as _tf, treeoutput as _to
    mts = [model.MT.from_json(j) for j in mtjs]
    trans, params, dopts = TRANS_COMBOS[combo_i]
    case = {'trans': combo_i, 'corpus': mtjs}
    d = workdir()
    terms = os.path.join(d, 'terms.txt')
    with open(terms, 'w', encoding='utf-8') as f:
        f.write('%d 1 NEU XX\n%d 9 NIE XX\n' % (mts[0].sid, mts[0].sid))
    params = [p.format(terms=terms) for p in params]
    src = os.path.join(d, 'in.export')
    with open(src, 'w', encoding='utf-8') as f:
        f.write(codecs.encode_export(mts, version=4))
    dest = os.path.join(d, 'out.export')
    argv = ['transform', src, dest, '--trans'] + trans
    if params:
        argv += ['--params'] + params
    if dopts:
        argv += ['--dest-opts'] + dopts
    st, so, se, exc = cli.run(argv)
    out = []

    def bad(kind, detail):
        out.append({'kind': kind, 'where': 'transform --trans ' + ' '.join(trans), 'case': case,
                    'detail': '%s [corpus %s, params %r, dest-opts %r]' % (detail, [model.mt_str(m.root, m.toks) for m in mts], params, dopts),
                    'what': 'transform --trans: ' + kind})
    # the same through the API
    try:
        stream = _io.StringIO()
        kw = my_options(params)
        for t in treeinput.export(src, 'utf-8', quiet=True):
            for name in trans:
                t = getattr(_tf, name)(t, **kw)
                if t is None:
                    break
            if t is not None:
                _to.export(t, stream, **my_options(dopts))
        api_text, api_err = stream.getvalue(), None
    except Exception as e:
        api_text, api_err = None, e
    if api_err is not None:
        if st == 0:
            bad('cli-accepts', 'the API pipeline raises %s: %s but the command succeeds' % (type(api_err).__name__, api_err))
        return out
    if st != 0:
        bad('cli-failed', 'exit status %r %s' % (st, cli.describe(exc)))
        return out
    try:
        got = codecs.read_out(dest)
    except codecs.DecodeError as e:
        bad('undecodable', str(e))
        return out
    if got != api_text:
        i = next((i for i in range(min(len(got), len(api_text))) if got[i] != api_text[i]), min(len(got), len(api_text)))
        bad('cli-differs-from-api', 'destination file differs from the API pipeline at offset %d: %r vs %r'
            % (i, got[max(0, i - 40):i + 60], api_text[max(0, i - 40):i + 60]))
    return out


def check_case(case):
    if 'lockstep' in case:
        return check_lockstep(case['lockstep'])
    with quiet():
        if 'trans' in case:
            return check_trans(case['corpus'], case['trans'])
        if case.get('dir'):
            return check_directory(case['a'], case['b'], case['src'], case['dest'])
        if case.get('sub'):
            return check_subprocess(case['corpus'], case['src'], case['dest'])
        if case.get('gf_transfer'):
            return check_gf_transfer(case['corpus'], case['dest'])
        if case.get('cons_columns'):
            return check_cons_columns(case['corpus'], case['cons_columns'])
        return check_chain(case['corpus'], case['fmts'], case.get('dev'))


def run_chunk(chunk):
    res = Result()

    def take(vs, nt, key):
        res.evals += 1
        res.nontrivial += 1 if nt else 0
        res.outcome((key, len(vs)))
        for v in vs:
            res.violation(v['kind'], v['where'], v['case'], v['detail'], v['what'])
    with quiet():
        kind = chunk['kind']
        if kind == 'pairs':
            src, dest = chunk['src'], chunk['dest']
            cont = src == 'brackets'
            corp = None
            for corp in single_corpora(chunk['nmax'], cont) + multi_corpora(cont):
                js = [m.to_json() for m in corp]
                take(check_chain(js, [src, dest]), src != dest or len(corp) > 1, (src, dest, tuple(m.key() for m in corp)))
            res.sample({'conversion': '%s -> %s' % (src, dest), 'corpus': [model.mt_str(m.root, m.toks) for m in corp]})
        elif kind == 'chains':
            a, b = chunk['a'], chunk['b']
            cont = 'brackets' in (a, b)
            corps = single_corpora(3, cont)[::3] + multi_corpora(cont, 2)
            targets = ['export3', 'export4', 'brackets', 'discobrackets', 'tigerxml']
            for corp in corps:
                js = [m.to_json() for m in corp]
                take(check_chain(js, [a, b, a]), True, (a, b, a, tuple(m.key() for m in corp)))
            for c in targets:
                if c == a:
                    continue
                for corp in corps[::2] if chunk['tier'] == 'quick' else corps:
                    if c == 'brackets' and any(model.mt_tree_gap_degree(m.root) > 0 for m in corp):
                        continue
                    js = [m.to_json() for m in corp]
                    take(check_chain(js, [a, b, c]), True, (a, b, c, tuple(m.key() for m in corp)))
            res.sample({'chains': '%s -> %s -> {%s, ...}' % (a, b, a), 'corpora': len(corps)})
        elif kind == 'trans':
            punct = []
            for i, m in enumerate(pool(False) + pool(True)):
                toks = [dict(t) for t in m.toks]
                if len(toks) > 1:
                    toks[1]['word'] = ',' if i % 2 else '"'
                if len(toks) > 3:
                    toks[3]['word'] = '('
                punct.append(model.MT(i + 1, toks, m.root))
            corps = [punct[:4], punct[4:8], punct[8:], [punct[5]], punct[::-1][:5]]
            for ci in range(len(TRANS_COMBOS)):
                for corp in corps:
                    take(check_trans([m.to_json() for m in corp], ci), True, ('trans', ci, tuple(m.key() for m in corp)))
            res.sample({'cli_vs_api': ['--trans ' + ' '.join(c[0]) + (' --params ' + ' '.join(c[1]) if c[1] else '') for c in TRANS_COMBOS]})
        elif kind == 'deviations':
            P = pool(False)
            Pc = pool(True)
            uni = [decorated(((1, 2), 3), 6, 4)]      # contains 'gä'
            devs = []
            for enc in ('latin-1', 'utf-16'):
                for src in SRC:
                    for dest in DEST:
                        devs.append((uni, [src, dest], {'src_enc': enc}))
                        devs.append((uni, [src, dest], {'dest_enc': enc}))
                        devs.append((uni, [src, dest, src] if dest != 'terminals' else [src, dest], {'src_enc': enc, 'dest_enc': enc}))
            for src in SRC:
                for dest in DEST:
                    devs.append((P[:3] if src != 'brackets' else Pc[:3], [src, dest], {'gz': True}))
                devs.append((P[:3] if src != 'brackets' else Pc[:3], [src, 'export4'], {'gz': 'members'}))
                for enc in ('latin-1', 'utf-16'):
                    devs.append((uni, [src, 'export4'], {'gz': True, 'src_enc': enc}))
                    devs.append((uni, [src, 'tigerxml'], {'gz': True, 'src_enc': enc, 'dest_enc': enc}))
            for src in SRC:
                srcP = P[:3] if src != 'brackets' else Pc[:3]
                for dest, fdev in (('export4', {'eol': 'crlf'}), ('tigerxml', {'final': 'none'}), ('export3', {'path': 'odd'}),
                                   ('discobrackets', {'path': 'relative'}), ('export3', {'dest_exists': True}),
                                   ('tigerxml', {'dest_exists': True, 'path': 'relative', 'eol': 'crlf'})):
                    devs.append((srcP, [src, dest], fdev))
                devs.append((srcP, [src, 'export4', 'tigerxml'], {'path': 'odd', 'dest_exists': True}))
                devs.append((srcP, [src, 'export3'], {'names': 'tmp'}))
                devs.append((srcP, [src, 'tigerxml'], {'names': 'gz', 'gz': True}))
            for src in ('export3', 'tigerxml'):
                for dest in ('export3', 'tigerxml'):
                    devs.append((P[:3], [src, dest], {'src_opts': ['continuous'], 'expect': 'continuous'}))
            for src in ('brackets', 'discobrackets'):
                for dest in ('export3', 'tigerxml'):
                    for first in (0, 1, 7):
                        devs.append((Pc[:3], [src, dest], {'src_opts': ['brackets_firstid:%d' % first], 'expect': 'firstid', 'first': first}))
            for dest in ('export3', 'brackets', 'discobrackets'):
                devs.append((Pc[:3], ['tigerxml', dest], {'dest_opts': ['gf'], 'expect': 'gf'}))
                devs.append((Pc[:3], ['export4', dest], {'dest_opts': ['gf', 'gf_separator:#'], 'expect': 'gf', 'sep': '#'}))
                devs.append((Pc[:3], ['export4', dest], {'dest_opts': ['gf', 'gf_separator:0'], 'expect': 'gf', 'sep': '0'}))
            for dest in ('export3', 'brackets', 'discobrackets'):
                take(check_gf_transfer([m.to_json() for m in Pc[:3]], dest), True, ('gf-transfer', dest))
            for srcfmt in ('export', 'brackets'):
                take(check_lockstep(srcfmt), True, ('lockstep', srcfmt))
            for version in (3, 4):
                take(check_cons_columns([m.to_json() for m in P[:4]], version), True, ('cons-columns', version))
            # words with several bracket kinds (formats that can carry them as sources) and with non-ASCII spaces
            par = [special_words(((1, 2), 3, 4), ['(SPD)', 'x[1]', '{a}', 'Student(inn)en'], 31),
                   special_words((1, (2, 3)), ['(', ')', 'a)('], 32)]
            nbsp = [special_words(((1, 2), 3), ['10\u00a0000', 'a\u202fb', 'x\u3000'], 33)]
            # ... and part-of-speech tags with bracket characters (the TIGER tag $( of every parenthesis and quote)
            ptag = special_words(((1, 2), 3, 4), ['(', 'x', ')', '"'], 34)
            for tk, tag in zip(ptag.toks, ['$(', 'NN', '$(', '$(']):
                tk['pos'] = tag
            par = par + [ptag]
            for src in ('export3', 'export4', 'tigerxml'):
                for dest in DEST:
                    devs.append((par, [src, dest], {}))
                devs.append((par, [src, 'discobrackets', 'tigerxml'], {}))
                devs.append((par, [src, 'brackets', 'export4'], {}))
            for dest in ('discobrackets', 'brackets', 'tigerxml'):
                devs.append((nbsp, ['tigerxml', dest], {}))
            devs.append((nbsp, ['tigerxml', 'discobrackets', 'tigerxml'], {}))
            devs.append((nbsp, ['tigerxml', 'brackets', 'discobrackets'], {}))
            # optional columns / comments in export sources; Penn-style empty root label with the gf writer option
            for dest in DEST:
                devs.append((P[:3], ['export3', dest], {'src_layout': {'secedges': True, 'comments': True}}))
                devs.append((P[:3], ['export4', dest], {'src_layout': {'secedges': True}}))
            for dest in ('brackets', 'discobrackets', 'export3'):
                devs.append((Pc[:3], ['brackets', dest], {'src_layout': {'empty_root': True}, 'dest_opts': ['gf']}))
            for dest in DEST:       # a surplus closing bracket after every tree of a bracketed source (text between groups is skipped)
                devs.append((Pc[:3], ['brackets', dest], {'src_layout': {'between': ')'}}))
                devs.append((Pc, ['brackets', dest], {'src_layout': {'between': ' )', 'layout': 'indented'}}))
            for dest in DEST:       # TIGER-XML as distributed: secondary edges, head section, ids like s1_7
                devs.append((P[:3], ['tigerxml', dest], {'src_layout': {'secedges': True, 'head': True, 'id_style': 'under'}}))
            devs.append((P, ['export3', 'brackets'], {'dest_opts': ['brackets_skipdisco']}))
            devs.append((P, ['tigerxml', 'brackets'], {'dest_opts': ['brackets_skipdisco']}))
            for corp, fmts, dev in devs:
                if 'brackets' in fmts and any(model.mt_tree_gap_degree(m.root) > 0 for m in corp) \
                        and 'brackets_skipdisco' not in dev.get('dest_opts', ()):
                    continue
                take(check_chain([m.to_json() for m in corp], fmts, dev), True, (tuple(fmts), repr(dev)))
            for src in SRC:
                for dest in DEST:
                    c = Pc if src == 'brackets' else P
                    take(check_directory([m.to_json() for m in c[:2]], [m.to_json() for m in c[2:4]], src, dest), True,
                         ('dir', src, dest))
            res.sample({'deviations': ['src/dest encodings latin-1, utf-16', 'gzip source', 'directory source',
                                       'reader option continuous', 'writer options gf / gf_separator / brackets_skipdisco']})
        else:
            P = pool(True)
            for src in SRC:
                for dest in DEST:
                    take(check_subprocess([m.to_json() for m in P[:2]], src, dest), True, ('sub', src, dest))
            res.sample({'subprocess_conformance': '5 x 6 format pairs, byte-identical destination files'})
    return res
