"""C19 Tree navigation API agrees with a set-based model of the tree."""
from .. import model, sweep
from ..runner import Result, scratch
from ..bridge import build_any
from ..bridge import T, build, quiet, build_via_export, build_via_tiger, perturb, extract, raw_leaves, monitor
from .c11 import ref_delete

ID = 'C19'
LEVEL = 'exploration'
TECHNIQUE = 'bounded exhaustive enumeration of tree shapes x child-list orders, set-model oracle'

ORDERS = [None, 'rev', 1, 'export', 'tiger', 'written']


def plan(tier, seed):
    specs = [(1, 2), (2, 2), (3, 2), (4, 2), (5, 1), (6, 0)] if tier == 'quick' else \
            [(1, 3), (2, 3), (3, 3), (4, 2), (5, 2), (6, 1), (7, 0)]
    return {
        'chunks': sweep.shape_chunks(specs, per_chunk=60, big=True) + [{'kind': 'clipipe'}, {'kind': 'huge'}],
        'rule': 'every hierarchy over n tokens (all discontinuous shapes) with up to u unary '
                'insertions at every position, each built with child lists in model order, '
                'reversed and rotated, and as delivered by the export and TIGER-XML readers; every node and every ordered pair of nodes queried, on the fresh tree, after re-attaching the last / first token by hand, and after deleting the last / first token with trees.delete_terminal (expected tree from the reference editor). '
                'non-trivial = distinct (shape, child order) with >= 2 constituents',
        'bound': ', '.join('n=%d:u<=%d' % s for s in specs),
        'exhaustive': True,
        'assumptions': ['driver differential (vt/clipipe.py): `treetools transform` with the pipelines that involve this operation, with and without --split, on a six-sentence corpus must write what the named functions give when applied by the harness in the given order',
                        'beyond the bound: %d fixed hierarchies with 11-13 tokens (two-digit token numbers, ten children, depth 11) as size probes' % len(model.big_shapes()),
                        'trees are built through Tree()/children/parent only',
                        'labels are unique per node so that nodes can be identified'],
    }


class Ref(object):
    """Set-based model of one model tree (paths identify nodes)."""
    def __init__(self, root):
        self.root = model.canon_mt(root)
        self.node = {}
        self.kids = {}
        self.parent = {}
        self.pre = []
        self.post = []
        self._walk(self.root, (), None)

    def _walk(self, nd, path, parent):
        self.node[path] = nd
        self.parent[path] = parent
        self.pre.append(path)
        ks = []
        if not isinstance(nd, int):
            for i, k in enumerate(nd[2]):
                ks.append(path + (i,))
                self._walk(k, path + (i,), path)
        self.kids[path] = ks
        self.post.append(path)

    def leaves(self, path):
        return model.leaves(self.node[path])

    def dominance(self, path):
        out = [path]
        while self.parent[out[-1]] is not None:
            out.append(self.parent[out[-1]])
        return out

    def sibling(self, path, delta):
        par = self.parent[path]
        if par is None:
            return None
        ks = self.kids[par]
        i = ks.index(path) + delta
        return ks[i] if 0 <= i < len(ks) else None

    def lca(self, a, b):
        da, db = self.dominance(a), self.dominance(b)
        if a in db or b in da:
            return None
        for p in da:
            if p in db:
                return p
        return None

    def level(self, path):
        nd = self.node[path]
        if isinstance(nd, int):
            return 0
        return 1 + max(self.level(k) for k in self.kids[path])


def tag_paths(t, ref):
    """Attach the model path to every library node (harness bookkeeping only)."""
    def rec(x, path):
        x.vt_path = path
        if x.children:
            ks = sorted(x.children, key=lambda c: min(l for l in _nums(c)))
            for i, c in enumerate(ks):
                rec(c, path + (i,))
    rec(t, ())


def _nums(x):
    if not x.children:
        return [x.data['num']]
    out = []
    for c in x.children:
        out.extend(_nums(c))
    return out


def P(x):
    return None if x is None else getattr(x, 'vt_path', '<foreign node>')


def check_tree(mt_json, order):
    """order: None | 'rev' | int rotation | 'export' (tree produced by the real export reader)."""
    mt = model.MT.from_json(mt_json)
    out = []
    case = {'mt': mt_json, 'order': order}
    try:
        if order == 'export':
            t = build_via_export(mt, scratch())
        elif order == 'tiger':
            t = build_via_tiger(mt, scratch())
        elif order == 'written':
            t = build_any(mt, 'written')
        else:
            t = build(mt, child_order=order)
        compare_live(t, mt, case, out, 'fresh tree')
        # non-initial state: the same objects after an in-place change (answers must follow the tree,
        # not remember what was computed before)
        for mode in ('last', 'first'):
            if not out and perturb(t, mode):
                mt2 = extract(t)
                compare_live(t, mt2, case, out, 'after re-attaching the %s token in place' % mode)
        # ... and after the API's own in-place edit: a token deleted with trees.delete_terminal
        for which in ('last', 'first'):
            cur = extract(t) if not out else None
            if cur is None or cur.n() < 2:
                break
            pos = cur.n() if which == 'last' else 1
            T.delete_terminal(t, [l for l in raw_leaves(t) if l.data['num'] == pos][0])
            exp = ref_delete(cur, [pos])
            probs = monitor(t, exp.n())
            if probs:
                out.append({'kind': 'ill-formed-after-delete', 'where': 'trees.delete_terminal', 'case': case,
                            'detail': 'deleting the %s token of %s: %s' % (which, model.mt_str(cur.root), '; '.join(probs)),
                            'what': 'delete_terminal leaves a tree the navigation functions cannot work on'})
                break
            compare_live(t, exp, case, out, 'after deleting the %s token with trees.delete_terminal' % which)
        # ... and on a tree that a transformation restructured in place (unary chains collapsed): the
        # answers that follow parent links must agree with those that follow child lists
        if not out and order in (None, 'rev'):
            from trees import transform
            t2 = transform.collapse_unary_chains(build(mt, child_order=order))
            if t2.children:
                compare_live(t2, extract(t2), case, out, 'after collapse_unary_chains')
    except Exception as e:  # library crashed on a well-formed tree
        out.append({'kind': 'exception', 'where': 'trees.*', 'case': case,
                    'detail': '%s: %s on %s' % (type(e).__name__, e, model.mt_str(mt.root)),
                    'what': 'navigation function raised on a well-formed tree'})
    return out


def compare_live(t, mt, case, out, phase):
    ref = Ref(mt.root)

    def bad(where, exp, got):
        out.append({'kind': 'navigation-mismatch', 'where': where, 'case': case,
                    'detail': '%s: expected %r, got %r on %s (child order %r, %s)'
                              % (where, exp, got, model.mt_str(mt.root), case['order'], phase),
                    'what': where + ' disagrees with the set model'})
    tag_paths(t, ref)
    by_path = {}
    stack = [t]
    while stack:
        x = stack.pop()
        by_path[x.vt_path] = x
        stack.extend(x.children)
    if set(by_path) != set(ref.node):
        raise AssertionError('harness: path tagging broken')
    for path, x in by_path.items():
        if x.children:
            got = [P(c) for c in T.children(x)]
            if got != ref.kids[path]:
                bad('children', ref.kids[path], got)
        if T.has_children(x) != bool(ref.kids[path]):
            bad('has_children', bool(ref.kids[path]), T.has_children(x))
        got = [l.data['num'] for l in T.terminals(x)]
        if got != ref.leaves(path):
            bad('terminals', ref.leaves(path), got)
        got = sorted(l.data['num'] for l in T.unordered_terminals(x))
        if got != ref.leaves(path):
            bad('unordered_terminals', ref.leaves(path), got)
        got = [[l.data['num'] for l in b] for b in T.terminal_blocks(x)]
        exp = model.blocks_of(ref.leaves(path))
        if got != exp:
            bad('terminal_blocks', exp, got)
        got = P(T.right_sibling(x))
        if got != ref.sibling(path, +1):
            bad('right_sibling', ref.sibling(path, +1), got)
        got = P(T.left_sibling(x))
        if got != ref.sibling(path, -1):
            bad('left_sibling', ref.sibling(path, -1), got)
        got = [P(d) for d in T.dominance(x)]
        if got != ref.dominance(path):
            bad('dominance', ref.dominance(path), got)
        # traversals from every node
        sub_pre = [p for p in ref.pre if p[:len(path)] == path]
        sub_post = [p for p in ref.post if p[:len(path)] == path]
        got = [P(d) for d in T.preorder(x)]
        if got != sub_pre:
            bad('preorder', sub_pre, got)
        got = [P(d) for d in T.postorder(x)]
        if got != sub_post:
            bad('postorder', sub_post, got)
    paths = sorted(by_path)
    for a in paths:
        for b in paths:
            got = P(T.lca(by_path[a], by_path[b]))
            exp = ref.lca(a, b)
            if got != exp:
                bad('lca', exp, got)
    # levels
    lv, rev = T.levels(t)
    exp_rev = {p: ref.level(p) for p in ref.node if ref.kids[p]}
    got_rev = {P(x): l for x, l in rev.items()}
    if got_rev != exp_rev:
        bad('levels.reverse', exp_rev, got_rev)
    got_lv = {l: sorted(P(x) for x in xs) for l, xs in lv.items()}
    exp_lv = {}
    for p, l in exp_rev.items():
        exp_lv.setdefault(l, []).append(p)
    exp_lv = {l: sorted(ps) for l, ps in exp_lv.items()}
    if got_lv != exp_lv:
        bad('levels', exp_lv, got_lv)
    # levels from every node: the tables describe the subtree of that node only
    for path, x in by_path.items():
        lv_x, rev_x = T.levels(x)
        exp_x = {p: ref.level(p) for p in ref.node if ref.kids[p] and p[:len(path)] == path}
        got_x = {P(n_): l for n_, l in rev_x.items()}
        if got_x != exp_x:
            bad('levels(node).reverse', exp_x, got_x)
            break
    # the lists handed out are the caller's: changing them must not change the tree
    for path, x in by_path.items():
        ks = T.children(x)
        if ks is x.children:
            bad('children() returns the node\'s own list', 'a new list', 'the internal list of %r' % (path,))
            break
        del ks[:]
        if [P(c) for c in T.children(x)] != [path + (i,) for i in range(len(ref.kids[path]))] and \
                sorted(P(c) for c in T.children(x)) != sorted(path + (i,) for i in range(len(ref.kids[path]))):
            bad('children() after the caller emptied an earlier result', len(ref.kids[path]), len(T.children(x)))
            break
    # ... also the (empty) lists handed out for tokens: a caller that collects nodes in one of them must not
    # change what is reported for any other node
    toks_ = [x for x in by_path.values() if not x.children]
    if toks_:
        got0 = T.children(toks_[0])
        if got0 == []:
            got0.append(toks_[0])
            for x in toks_:
                if T.children(x) != []:
                    bad('children(token) after the caller changed an earlier result', [], [P(c) for c in T.children(x)])
                    break
            try:
                del got0[:]
            except Exception:
                pass
    # export numbering (mutates num of constituents only)
    from trees import treeoutput
    treeoutput.compute_export_numbering(t)
    cons = [p for p in ref.node if ref.kids[p] and p != ()]
    cons.sort(key=lambda p: (ref.level(p), ref.leaves(p)[0]))
    exp_num = {p: 500 + i for i, p in enumerate(cons)}
    exp_num[()] = 0
    got_num = {p: by_path[p].data.get('num') for p in exp_num}
    if got_num != exp_num:
        bad('compute_export_numbering', exp_num, got_num)
    # tokens keep their numbers
    for p in ref.node:
        if not ref.kids[p] and by_path[p].data['num'] != ref.node[p]:
            bad('compute_export_numbering.tokens', ref.node[p], by_path[p].data['num'])
    # a writer pass in between (writers use the navigation API and may leave marks on the nodes)
    import io as _io
    import copy as _copy
    treeoutput.export(t, _io.StringIO())
    for path, x in by_path.items():
        if x.children:
            got = [P(c) for c in T.children(x)]
            if got != ref.kids[path]:
                bad('children after an export writer pass', ref.kids[path], got)


def check_huge(n):
    """Export numbering on a sentence with n tokens (n around the first constituent number 500): constituents are
    numbered 500.., whatever the sentence length."""
    from trees import treeoutput
    sh = (tuple(range(1, n - 1)), (n - 1, n))
    mt = model.simple_mt(sh)
    t = build(mt)
    out = []
    try:
        treeoutput.compute_export_numbering(t)
        ks = sorted(t.children, key=lambda c: min(l.data['num'] for l in raw_leaves(c)))
        got = [t.data.get('num')] + [k.data.get('num') for k in ks]
        if got != [0, 500, 501]:
            out.append({'kind': 'navigation-mismatch', 'where': 'compute_export_numbering', 'case': {'huge': n},
                        'detail': 'sentence with %d tokens, root and its two constituents are numbered %r, expected [0, 500, 501]' % (n, got),
                        'what': 'export numbering is not a bijection onto 0 and 500..499+k'})
        toks = sorted(l.data['num'] for l in raw_leaves(t))
        if toks != list(range(1, n + 1)):
            out.append({'kind': 'navigation-mismatch', 'where': 'compute_export_numbering.tokens', 'case': {'huge': n},
                        'detail': 'token numbers changed in a sentence with %d tokens' % n, 'what': 'export numbering renumbers tokens'})
    except Exception as e:
        out.append({'kind': 'exception', 'where': 'compute_export_numbering', 'case': {'huge': n},
                    'detail': '%s: %s (sentence with %d tokens)' % (type(e).__name__, e, n), 'what': 'export numbering raised'})
    return out


def check_case(case):
    if 'huge' in case:
        with quiet():
            return check_huge(case['huge'])
    if 'clipipe' in case:
        from .. import clipipe
        return clipipe.replay(case)
    with quiet():
        return check_tree(case['mt'], case['order'])


def run_chunk(chunk):
    if chunk.get('kind') == 'huge':
        res = Result()
        with quiet():
            for n in (99, 499, 500, 501, 640, 1001):
                vs = check_huge(n)
                res.evals += 1
                res.nontrivial += 1
                res.outcome(('huge', n, len(vs)))
                for v in vs:
                    res.violation(v['kind'], v['where'], v['case'], v['detail'], v['what'])
        res.sample({'export_numbering_on_sentences_with_tokens': [99, 499, 500, 501, 640, 1001]})
        return res
    if chunk.get('kind') == 'clipipe':
        from .. import clipipe
        res = Result()
        clipipe.run_property(ID, res)
        return res
    res = Result()
    with quiet():
        for sh, k in sweep.iter_shapes(chunk):
            mt = model.simple_mt(sh)
            j = mt.to_json()
            ncons = model.count_nodes(sh)
            for order in ORDERS:
                vs = check_tree(j, order)
                res.evals += 1
                if ncons >= 2:
                    res.nontrivial += 1
                res.outcome((model.shape_str(sh), order, len(vs)))
                for v in vs:
                    res.violation(v['kind'], v['where'], v['case'], v['detail'], v['what'])
            res.sample({'tree': model.mt_str(mt.root), 'child_orders': ORDERS,
                        'unary_inserted': k})
    return res


# --- non-initial states: the oracle of this property in every state of the live-state pool
# (vt/livepool.py: BFS over live objects; vt/liveoracles.py: the oracles)
from .. import liveoracles as _lo
_plan0, _run_chunk0, _check_case0 = plan, run_chunk, check_case


def plan(tier, seed):
    p = _plan0(tier, seed)
    p['chunks'] = list(p['chunks']) + _lo.plan_chunks(tier)
    p['assumptions'] = list(p.get('assumptions', [])) + [_lo.assumption()]
    return p


def run_chunk(chunk):
    if chunk.get('kind') == 'live':
        return _lo.run_chunk(ID, chunk, Result())
    return _run_chunk0(chunk)


def check_case(case):
    if isinstance(case, dict) and isinstance(case.get('live'), dict):
        return _lo.replay(case)
    return _check_case0(case)
