"""C16 Gap-degree analysis agrees with the set-based definition everywhere it is used."""
import io
import os
import re
import itertools
from .. import model, sweep, codecs, cli
from ..runner import Result, scratch
from ..bridge import T, build, quiet, build_via_export, build_any

from trees import treeanalysis, treeoutput, grammar, grammaranalysis

ID = 'C16'
LEVEL = 'exploration'
TECHNIQUE = 'bounded exhaustive enumeration of tree shapes and small treebanks, set-based oracle, CLI executed in-process'


def pool():
    """Small trees with every feature: degrees 0,1,2, gaps at two levels, unary, one token."""
    shs = [(1,), (1, 2), ((1, 3), 2), ((1, 3, 5), 2, 4), (((1, 4), 2), 3), ((1,), (2, 3)),
           ((1, 2), (3, 4)), (((1, 3), (2, 4)),), ((1, (2,)), 3), (((1, 5), 3), 2, 4),
           (((1, 3, 5), (2,)), 4)]
    out = []
    for i, sh in enumerate(shs):
        n = len(model.leaves(sh))
        out.append(model.simple_mt(sh, sid=i + 1, pos=[['T0', 'T1', 'T2', 'VROOT', 'EMPTY', '--'][(i + j) % 6] for j in range(n)],
                                   words=[['%', 'w', '%5', '#1', '5%'][(i + 2 * j) % 5] for j in range(n)]))
    return out


def plan(tier, seed):
    specs = [(1, 2), (2, 2), (3, 2), (4, 2), (5, 1), (6, 1)] if tier == 'quick' else \
            [(1, 3), (2, 3), (3, 3), (4, 2), (5, 2), (6, 1), (7, 1)]
    chunks = sweep.shape_chunks(specs, per_chunk=60, big=True, kind='shapes')
    k = 2 if tier == 'quick' else 3
    npool = len(pool())
    seqs = [list(s) for r in range(1, k + 1) for s in itertools.product(range(npool), repeat=r)]
    for i in range(0, len(seqs), 40):
        chunks.append({'kind': 'banks', 'seqs': seqs[i:i + 40]})
    chunks.insert(0, {'kind': 'volume', 'nsent': 5600 if tier == 'quick' else 12000})
    return {
        'chunks': chunks,
        'rule': 'every hierarchy over n tokens with up to u unary insertions: per-node gap degree, blocks, '
                'tree degree, the three notions of discontinuity, disco_order on binary shapes (both modes); '
                'every sequence of up to %d trees from a %d-tree pool through the three analysis tasks via '
                'API and CLI (on every other treebank each command-line run follows an aborted run of the same task); '
                'one volume probe outside the bound (a file of 112 000 / 240 000 tokens through the three tasks). '
                'non-trivial = distinct trees/treebanks containing a node of gap degree >= 1'
                % (k, npool),
        'bound': ', '.join('n=%d:u<=%d' % s for s in specs) + '; treebanks of <= %d trees' % k,
        'exhaustive': True,
        'assumptions': ['export encoder of the harness is correct (selftest)',
                        'each tree is analysed again after root_attach and after deleting its first token (same objects)',
                        'trees come from the tree API (child lists in order / reversed) or from the real export reader; labels unique or all equal'],
    }


def check_tree(mtj, order=None):
    mt = model.MT.from_json(mtj)
    out = []
    case = {'mt': mtj, 'order': order}

    def bad(where, exp, got):
        out.append({'kind': 'gap-mismatch', 'where': where, 'case': case,
                    'detail': '%s: expected %r, got %r on %s' % (where, exp, got, model.mt_str(mt.root)),
                    'what': where + ' disagrees with the set-based definition'})
    def mk():
        return build_any(mt, order)
    try:
        t = mk()
        degs = []
        stack = [(t, mt.root)]
        while stack:
            x, nd = stack.pop()
            exp = model.mt_gap_degree(nd)
            got = treeanalysis.gap_degree_node(x)
            if got != exp:
                bad('gap_degree_node', exp, got)
            if not isinstance(nd, int):
                degs.append(exp)
                if treeanalysis.has_gaps(x) != (exp > 0):
                    bad('has_gaps', exp > 0, treeanalysis.has_gaps(x))
                blocks = [[l.data['num'] for l in b] for b in T.terminal_blocks(x)]
                expb = model.blocks_of(model.leaves(nd))
                if blocks != expb:
                    bad('terminal_blocks', expb, blocks)
                if len(blocks) - 1 != got:
                    bad('blocks-vs-degree', got + 1, len(blocks))
                ks = sorted(x.children, key=lambda c: min(l.data['num'] for l in _leaves(c)))
                for c, k in zip(ks, model.canon_mt(nd)[2]):
                    stack.append((c, k))
        tdeg = max(degs)
        got = treeanalysis.gap_degree(t)
        if got != tdeg:
            bad('gap_degree', tdeg, got)
        task = treeanalysis.GapDegree()
        task.run(build(mt))
        exp_nodes = {}
        for d in degs:
            exp_nodes[d] = exp_nodes.get(d, 0) + 1
        if task.gaps_per_tree != {tdeg: 1}:
            bad('GapDegree.gaps_per_tree', {tdeg: 1}, task.gaps_per_tree)
        if task.gaps_per_node != exp_nodes:
            bad('GapDegree.gaps_per_node', exp_nodes, task.gaps_per_node)
        # three notions of discontinuity
        g, lex = {}, {}
        grammar.extract(build(mt), g, lex)
        cf = grammaranalysis.is_contextfree(g)
        if cf != (tdeg == 0):
            bad('is_contextfree(extract)', tdeg == 0, cf)
        stream = io.StringIO()
        try:
            treeoutput.brackets(build(mt), stream)
            refused = False
        except ValueError:
            refused = True
        if refused != (tdeg > 0):
            bad('brackets-writer-refuses', tdeg > 0, refused)
        if not refused and stream.getvalue().count('\n') != 1:
            bad('brackets-writer-output', 'one line', stream.getvalue())
        # with brackets_skipdisco the refusal becomes a silent skip: nothing is written for a discontinuous tree
        stream = io.StringIO()
        try:
            treeoutput.brackets(build(mt), stream, brackets_skipdisco=True)
            wrote = stream.getvalue() != ''
        except ValueError:
            wrote = 'ValueError'
        if wrote != (tdeg == 0):
            bad('brackets-writer-skips (brackets_skipdisco)', tdeg == 0, wrote)
        # re-analysis of the SAME tree object after in-place changes (non-initial states): the reported
        # degrees must follow the tree, not remember earlier answers
        from trees import transform
        from ..bridge import extract, monitor as _monitor, all_nodes
        live = mk()
        for x in all_nodes(live):
            treeanalysis.gap_degree_node(x)
        treeanalysis.gap_degree(live)
        for step in ('root_attach', 'delete_first_token'):
            if step == 'root_attach':
                live = transform.root_attach(live)
            else:
                if mt.n() < 2:
                    break
                first = [l for l in _leaves(live) if l.data['num'] == 1][0]
                T.delete_terminal(live, first)
            if _monitor(live):
                break       # ill-formedness of these transformations is C04/C11/C12's business
            now = extract(live)
            for x in all_nodes(live):
                exp = model.blocks_of(sorted(l.data['num'] for l in _leaves(x)))
                got = treeanalysis.gap_degree_node(x)
                if got != len(exp) - 1:
                    bad('gap_degree_node after ' + step, len(exp) - 1, got)
                if x.children:
                    blocks = [[l.data['num'] for l in b] for b in T.terminal_blocks(x)]
                    if blocks != exp:
                        bad('terminal_blocks after ' + step, exp, blocks)
            exp_deg = model.mt_tree_gap_degree(now.root)
            if treeanalysis.gap_degree(live) != exp_deg:
                bad('gap_degree after ' + step, exp_deg, treeanalysis.gap_degree(live))
            stream2 = io.StringIO()
            try:
                treeoutput.brackets(build(now), stream2)
                refused2 = False
            except ValueError:
                refused2 = True
            if refused2 != (exp_deg > 0):
                bad('brackets-writer-refuses after ' + step, exp_deg > 0, refused2)
        # disco_order on binary trees
        if model.max_arity_of(_shape(mt.root)) <= 2:
            for mode in ('left', 'rightd'):
                order = [l.data['num'] for l in treeanalysis.disco_order(build(mt), mode)]
                if sorted(order) != list(range(1, mt.n() + 1)):
                    bad('disco_order(%s)-permutation' % mode, list(range(1, mt.n() + 1)), order)
                if tdeg == 0 and order != list(range(1, mt.n() + 1)):
                    bad('disco_order(%s)-identity-on-continuous' % mode, list(range(1, mt.n() + 1)), order)
        # ... and on trees binarized by the tool itself (head-marked, child lists in both storage orders): the
        # reordering is a permutation, and the identity when the tree was continuous
        elif order is None:
            from trees import transform
            for mode, co in (('left', 'rev'), ('rightd', 'rev'), ('left', 1), ('rightd', 2), ('left', None)):
                bt = transform.binarize(transform.negra_mark_heads(build(mt, child_order=co)))
                got_order = [l.data['num'] for l in treeanalysis.disco_order(bt, mode)]
                if sorted(got_order) != list(range(1, mt.n() + 1)):
                    bad('disco_order(%s)-permutation after binarize' % mode, list(range(1, mt.n() + 1)), got_order)
                if tdeg == 0 and got_order != list(range(1, mt.n() + 1)):
                    bad('disco_order(%s)-identity-on-continuous after binarize' % mode, list(range(1, mt.n() + 1)), got_order)
    except Exception as e:
        out.append({'kind': 'exception', 'where': 'treeanalysis', 'case': case,
                    'detail': '%s: %s on %s' % (type(e).__name__, e, model.mt_str(mt.root)),
                    'what': 'analysis raised on a well-formed tree'})
    return out


def _leaves(x):
    if not x.children:
        return [x]
    out = []
    for c in x.children:
        out.extend(_leaves(c))
    return out


def _shape(nd):
    if isinstance(nd, int):
        return nd
    return tuple(_shape(k) for k in nd[2])


def expected_reports(mts):
    trees_by_deg, nodes_by_deg = {}, {}
    tags = set()
    for mt in mts:
        degs = [model.mt_gap_degree(nd) for nd in model.mt_all(mt.root) if not isinstance(nd, int)]
        for d in degs:
            nodes_by_deg[d] = nodes_by_deg.get(d, 0) + 1
        trees_by_deg[max(degs)] = trees_by_deg.get(max(degs), 0) + 1
        tags |= set(t['pos'] for t in mt.toks)
    return {'trees': len(mts), 'nodes': sum(nodes_by_deg.values()), 'per_tree': trees_by_deg,
            'per_node': nodes_by_deg, 'tags': len(tags)}


def parse_gap_report(text):
    m = re.search(r'^(\d+) trees, (\d+) nodes$', text, re.M)
    if not m:
        return None
    rep = {'trees': int(m.group(1)), 'nodes': int(m.group(2)), 'per_tree': {}, 'per_node': {}}
    for line in text.split('\n'):
        m = re.fullmatch(r'Gap degree\s+(\d+):\s+(\d+) (trees|nodes) \(\s*([\d.]+)%\)', line)
        if m:
            rep['per_tree' if m.group(3) == 'trees' else 'per_node'][int(m.group(1))] = int(m.group(2))
    return rep


def check_bank(seq):
    P = pool()
    mts = []
    for j, i in enumerate(seq):
        m = P[i]
        mts.append(model.MT(j + 1, m.toks, m.root))
    exp = expected_reports(mts)
    out = []
    case = {'bank': seq}

    def bad(where, e, g):
        out.append({'kind': 'report-mismatch', 'where': where, 'case': case,
                    'detail': '%s: expected %r, got %r for treebank %s'
                              % (where, e, g, [model.mt_str(m.root) for m in mts]),
                    'what': where + ' report disagrees with the treebank'})
    srcfmt = ['export', 'tigerxml', 'discobrackets'][sum(seq) % 3]
    path = os.path.join(scratch(), 'bank.' + srcfmt)
    if sum(seq) % 2 == 1:
        # a path with blanks, non-ASCII and glob characters
        os.makedirs(os.path.join(scratch(), 'neg ra [v2] \u00fc'), exist_ok=True)
        path = os.path.join(scratch(), 'neg ra [v2] \u00fc', 'part[1] *?.' + srcfmt)
    with open(path, 'w', encoding='utf-8') as f:
        f.write({'export': codecs.encode_export, 'tigerxml': lambda m: codecs.encode_tigerxml(m, secedges=True, head=True),
                 'discobrackets': codecs.encode_discobrackets}[srcfmt](mts))
    fmtargs = ['--src-format', srcfmt]
    try:
        # API
        task = treeanalysis.GapDegree()
        for mt in mts:
            task.run(build(mt))
        if task.gaps_per_tree != exp['per_tree']:
            bad('GapDegree.gaps_per_tree', exp['per_tree'], task.gaps_per_tree)
        if task.gaps_per_node != exp['per_node']:
            bad('GapDegree.gaps_per_node', exp['per_node'], task.gaps_per_node)
        # the same task object used on: report, further trees, report again.  Whether the second report covers the
        # second batch or both is not specified; its tree tallies and its node tallies must describe the SAME trees.
        import contextlib
        buf = io.StringIO()
        with contextlib.redirect_stdout(buf), contextlib.redirect_stderr(io.StringIO()):
            task.done()
        first = parse_gap_report(buf.getvalue())
        if first is not None and first != {k: exp[k] for k in ('trees', 'nodes', 'per_tree', 'per_node')}:
            bad('GapDegree.done()', {k: exp[k] for k in ('trees', 'nodes', 'per_tree', 'per_node')}, first)
        batch2 = mts[:1] + mts[-1:]
        for mt in batch2:
            task.run(build(mt))
        buf = io.StringIO()
        with contextlib.redirect_stdout(buf), contextlib.redirect_stderr(io.StringIO()):
            task.done()
        second = parse_gap_report(buf.getvalue())
        ok = [{k: expected_reports(b)[k] for k in ('trees', 'nodes', 'per_tree', 'per_node')} for b in (batch2, mts + batch2)]
        if second is not None and second not in ok:
            bad('GapDegree report after run, done, run, done on one task object', ok, second)
        # CLI.  On every other bank each run is preceded by a run of the same task that is aborted half-way: the
        # same sentences followed by one the reader must reject (whatever that run does, the next one starts afresh)
        aborted = None
        if sum(seq) % 2 == 0:
            aborted = os.path.join(scratch(), 'cut.' + srcfmt)
            with open(path, encoding='utf-8') as f:
                text = f.read()
            with open(aborted, 'w', encoding='utf-8') as f:
                f.write({'export': text + '#BOS 99\nw\t\t\tX\t--\t\t--\t1000\n#EOS 99\n',
                         'tigerxml': text[:2 * len(text) // 3],
                         'discobrackets': text + '(VROOT (X 0=oops'}[srcfmt])

        def run_task(name, extra=()):
            if aborted is not None:
                cli.run(['treeanalysis', aborted, name] + fmtargs + list(extra))
            return cli.run(['treeanalysis', path, name] + fmtargs + list(extra))
        st, so, se, exc = run_task('GapDegree')
        rep = parse_gap_report(so)
        if st != 0 or rep is None:
            bad('cli GapDegree status/report', 0, (st, cli.describe(exc), so[-200:]))
        else:
            want = {k: exp[k] for k in ('trees', 'nodes', 'per_tree', 'per_node')}
            if rep != want:
                bad('cli GapDegree', want, rep)
            if sum(rep['per_tree'].values()) != rep['trees'] or sum(rep['per_node'].values()) != rep['nodes']:
                bad('cli GapDegree sums', (rep['trees'], rep['nodes']), rep)
        if srcfmt == 'discobrackets':
            # a reader option must reach the reader: in bracket order every node is one block
            st, so, se, exc = run_task('GapDegree', ['--src-opts', 'disco_reordered'])
            rep = parse_gap_report(so)
            want = {'trees': exp['trees'], 'nodes': exp['nodes'], 'per_tree': {0: exp['trees']}, 'per_node': {0: exp['nodes']}}
            if st != 0 or rep != want:
                bad('cli GapDegree --src-opts disco_reordered', want, (st, cli.describe(exc), rep))
        st, so, se, exc = run_task('SentenceCount')
        m = re.search(r'^(\d+) sentences$', so, re.M)
        if st != 0 or not m or int(m.group(1)) != len(mts):
            bad('cli SentenceCount', len(mts), (st, cli.describe(exc), so[-100:]))
        st, so, se, exc = run_task('PosTags')
        m = re.search(r'^(\d+) different tags$', so, re.M)
        if st != 0 or not m or int(m.group(1)) != exp['tags']:
            bad('cli PosTags', exp['tags'], (st, cli.describe(exc), so[-100:]))
    except Exception as e:
        out.append({'kind': 'exception', 'where': 'treeanalysis tasks', 'case': case,
                    'detail': '%s: %s' % (type(e).__name__, e), 'what': 'analysis task raised'})
    return out


def check_volume(nsent):
    """Volume probe (outside the exhaustive bound): one export file of nsent sentences of 20 tokens through the three
    analysis tasks of the command line.  Three tags occur in one sentence only (first, middle, last); every second
    sentence holds a node of gap degree 1."""
    shapes = [tuple(range(1, 21)), ((1, 3), 2) + tuple(range(4, 21))]
    mts = []
    for i in range(nsent):
        pos = ['T%d' % (j % 6) for j in range(20)]
        if i in (0, nsent // 2, nsent - 1):
            pos[7] = {0: 'FIRST', nsent // 2: 'MID', nsent - 1: 'LAST'}[i]
        mts.append(model.simple_mt(shapes[i % 2], sid=i + 1, pos=pos))
    exp = expected_reports(mts)
    out = []
    case = {'volume': nsent}

    def bad(where, e, g):
        out.append({'kind': 'report-mismatch', 'where': where, 'case': case,
                    'detail': '%s: expected %r, got %r for a file of %d sentences / %d tokens' % (where, e, g, nsent, 20 * nsent),
                    'what': where + ' report disagrees with the treebank (volume probe)'})
    path = os.path.join(scratch(), 'volume.export')
    with open(path, 'w', encoding='utf-8') as f:
        f.write(codecs.encode_export(mts))
    try:
        st, so, se, exc = cli.run(['treeanalysis', path, 'GapDegree', '--src-format', 'export'])
        rep = parse_gap_report(so)
        want = {k: exp[k] for k in ('trees', 'nodes', 'per_tree', 'per_node')}
        if st != 0 or rep != want:
            bad('cli GapDegree', want, (st, cli.describe(exc), rep))
        st, so, se, exc = cli.run(['treeanalysis', path, 'SentenceCount', '--src-format', 'export'])
        m = re.search(r'^(\d+) sentences$', so, re.M)
        if st != 0 or not m or int(m.group(1)) != nsent:
            bad('cli SentenceCount', nsent, (st, cli.describe(exc), so[-100:]))
        st, so, se, exc = cli.run(['treeanalysis', path, 'PosTags', '--src-format', 'export'])
        m = re.search(r'^(\d+) different tags$', so, re.M)
        if st != 0 or not m or int(m.group(1)) != exp['tags']:
            bad('cli PosTags', exp['tags'], (st, cli.describe(exc), so[-100:]))
    except Exception as e:
        out.append({'kind': 'exception', 'where': 'treeanalysis tasks', 'case': case,
                    'detail': '%s: %s' % (type(e).__name__, e), 'what': 'analysis task raised'})
    os.unlink(path)
    return out


def check_case(case):
    with quiet():
        if 'volume' in case:
            return check_volume(case['volume'])
        if 'bank' in case:
            return check_bank(case['bank'])
        return check_tree(case['mt'], case.get('order'))


def run_chunk(chunk):
    res = Result()
    with quiet():
        if chunk['kind'] == 'volume':
            vs = check_volume(chunk['nsent'])
            res.evals += 1
            res.nontrivial += 1
            res.outcome(('volume', chunk['nsent'], len(vs)))
            for v in vs:
                res.violation(v['kind'], v['where'], v['case'], v['detail'], v['what'])
            res.sample({'volume probe': '%d sentences, %d tokens' % (chunk['nsent'], 20 * chunk['nsent'])})
            return res
        if chunk['kind'] == 'banks':
            P = pool()
            for seq in chunk['seqs']:
                vs = check_bank(seq)
                res.evals += 1
                if any(model.mt_tree_gap_degree(P[i].root) > 0 for i in seq):
                    res.nontrivial += 1
                res.outcome((tuple(seq), len(vs)))
                for v in vs:
                    res.violation(v['kind'], v['where'], v['case'], v['detail'], v['what'])
            res.sample({'treebank': [model.mt_str(P[i].root) for i in seq], 'tasks': ['GapDegree', 'SentenceCount', 'PosTags']})
            return res
        for sh, k in sweep.iter_shapes(chunk):
            # labels: unique per node, or all the same (so that one bare rule occurs continuous and discontinuous)
            mt = model.simple_mt(sh) if res.evals % 3 else model.simple_mt(sh, labels='A', pos=['x'] * len(model.leaves(sh)))
            vs = check_tree(mt.to_json(), [None, 'rev', 'export', 'written'][res.evals % 4])
            res.evals += 1
            d = model.mt_tree_gap_degree(mt.root)
            if d > 0:
                res.nontrivial += 1
            res.outcome((model.shape_str(sh), d, len(vs)))
            for v in vs:
                res.violation(v['kind'], v['where'], v['case'], v['detail'], v['what'])
        res.sample({'tree': model.mt_str(mt.root), 'gap_degree': d})
    return res


# --- non-initial states: the oracle of this property in every state of the live-state pool
# (vt/livepool.py: BFS over live objects; vt/liveoracles.py: the oracles)
from .. import liveoracles as _lo
_plan0, _run_chunk0, _check_case0 = plan, run_chunk, check_case


def plan(tier, seed):
    p = _plan0(tier, seed)
    p['chunks'] = list(p['chunks']) + _lo.plan_chunks(tier)
    p['assumptions'] = list(p.get('assumptions', [])) + [_lo.assumption()]
    return p


def run_chunk(chunk):
    if chunk.get('kind') == 'live':
        return _lo.run_chunk(ID, chunk, Result())
    return _run_chunk0(chunk)


def check_case(case):
    if isinstance(case, dict) and isinstance(case.get('live'), dict):
        return _lo.replay(case)
    return _check_case0(case)
