"""C17 Output splitting partitions the treebank in order into well-formed parts."""
import os
import re
import glob
import itertools
from .. import model, codecs, cli
from ..runner import Result, scratch
from ..bridge import quiet, monitor, extract, mt_equal

from trees import treeoutput, treeinput
from .c02 import map_parens

ID = 'C17'
LEVEL = 'exploration'
TECHNIQUE = 'bounded exhaustive enumeration of split specifications x treebank sizes (exact integer reference) and of CLI --split runs x output formats'

ATOMS = ['0#', '1#', '2#', '5#', '0%', '10%', '29%', '33%', '50%', '100%', 'rest']
MALFORMED = ['', 'x', '5', 'rest_rest', '-1#_rest', '1#__2#', '%', '#', '5.5%', '1#_', '_1#', 'REST', '10%%',
             '1#_rest_rest', '-10%_rest']
FORMATS = ['export', 'brackets', 'discobrackets', 'tigerxml', 'terminals']


def plan(tier, seed):
    P, S = (3, 12) if tier == 'quick' else (4, 40)
    chunks = [{'kind': 'percent', 'lo': lo, 'hi': lo + 10} for lo in range(0, 101, 10)]
    for a in ATOMS:
        chunks.append({'kind': 'specs', 'first': a, 'P': P, 'S': S})
    chunks.append({'kind': 'malformed', 'S': S})
    maxsize = 5 if tier == 'quick' else 7
    for fmt in FORMATS:
        for size in range(0, maxsize + 1):
            chunks.append({'kind': 'cli', 'fmt': fmt, 'size': size})
    return {
        'chunks': chunks,
        'rule': 'arithmetic: every percentage 0..100 x every size 0..300; every specification of <= %d parts over '
                'the atoms %r (at most one rest) x every size 0..%d; %d malformed specifications; CLI: treebanks of '
                'size 0..%d x 5 output formats x specifications of <= 2 parts x with/without filter_by_length. '
                'non-trivial = distinct (spec, size) cases where rounding leaves a remainder or the spec is '
                'rejected, and CLI runs with >= 2 non-empty parts' % (P, ATOMS, S, len(MALFORMED), maxsize),
        'bound': 'parts <= %d, sizes <= %d (arithmetic); treebank sizes <= %d (CLI)' % (P, S, maxsize),
        'exhaustive': True,
        'assumptions': ['rejection = any exception / non-zero exit status (DESIGN D9)',
                        'a negative number is a malformed part size'],
    }


def ref_split(spec, size):
    """Exact-integer reference.  Returns the list of part sizes or None for rejection."""
    parts, rest = [], None
    for i, p in enumerate(spec.split('_')):
        if re.fullmatch(r'[0-9]+#', p):
            parts.append(int(p[:-1]))
        elif re.fullmatch(r'[0-9]+%', p):
            parts.append(int(p[:-1]) * size // 100)
        elif p == 'rest' and rest is None:
            parts.append(0)
            rest = i
        else:
            return None
    total = sum(parts)
    if total > size:
        return None
    if total < size:
        if rest is not None:
            parts[rest] = size - total
        else:
            parts[parts.index(max(parts))] += size - total
    return parts


def check_spec(spec, size):
    exp = ref_split(spec, size)
    out = []
    try:
        got = treeoutput.parse_split_specification(spec, size)
    except Exception:
        got = None
    if got is not None:
        got = list(got)
    if got != exp:
        out.append({'kind': 'split-arithmetic' if exp is not None and got is not None else
                            ('not-rejected' if exp is None else 'wrongly-rejected'),
                    'where': 'parse_split_specification', 'case': {'spec': spec, 'size': size},
                    'detail': 'parse_split_specification(%r, %d) = %r, expected %r' % (spec, size, got, exp),
                    'what': 'part sizes differ from the specification'})
    elif got is not None and (sum(got) != size or any((not isinstance(x, int)) or x < 0 for x in got)):
        out.append({'kind': 'split-invariant', 'where': 'parse_split_specification',
                    'case': {'spec': spec, 'size': size},
                    'detail': 'parts %r do not sum to %d or are negative' % (got, size), 'what': 'parts do not partition'})
    return out, exp


# ---------------------------------------------------------------- CLI
def bank(size, special=True):
    shs = [(1, 2), ((1, 2), 3), (1,), (1, (2, 3)), ((1,), 2), ((1, 2), (3, 4)), (1, 2, 3), ((1, 2, 3), 4)]
    mts = []
    for i in range(size):
        sh = shs[i % len(shs)]
        n = len(model.leaves(sh))
        mt = model.simple_mt(sh, sid=i + 1, words=['t%dw%d' % (i + 1, j + 1) if (i, j) != (1, 1) or not special else 'B\u00e4r(1)' for j in range(n)])
        mts.append(mt)
    return mts


def decode_part(fmt, text):
    """Returns list of comparable sentences: (words, structure or None)."""
    if fmt == 'export':
        return [([t['word'] for t in m.toks], model.canon_mt(m.root)) for m in codecs.decode_export(text)]
    if fmt == 'tigerxml':
        return [([t['word'] for t in m.toks], model.canon_mt(m.root)) for m in codecs.decode_tigerxml(text)]
    if fmt == 'brackets':
        return [([t['word'] for t in toks], _strip_edges(root)) for root, toks in codecs.decode_brackets(text)]
    if fmt == 'discobrackets':
        return [([t['word'] for t in toks], _strip_edges(root)) for root, toks in codecs.decode_discobrackets(text)]
    return [([w for w, _ in s], None) for s in codecs.decode_terminals(text)]


def _strip_edges(nd):
    if isinstance(nd, int):
        return nd
    return (nd[0], None, tuple(_strip_edges(k) for k in nd[2]))


def expected_part(fmt, mts):
    out = []
    for m in mts:
        words = [t['word'] for t in m.toks]
        if fmt in ('brackets', 'discobrackets'):
            words = [map_parens(w) for w in words]
        if fmt in ('export', 'tigerxml'):
            out.append((words, model.canon_mt(m.root)))
        elif fmt in ('brackets', 'discobrackets'):
            out.append((words, _strip_edges(model.canon_mt(m.root))))
        else:
            out.append((words, None))
    return out


def check_cli(fmt, size, spec, use_filter, src_fmt='export', encs=None):
    mts = bank(size, special=src_fmt in ('export', 'tigerxml'))
    if use_filter == 2:
        for m in mts:
            if m.n() >= 2:
                m.toks[-1]['word'] = '.'
    case = {'cli': True, 'fmt': fmt, 'size': size, 'spec': spec, 'filter': use_filter, 'src_fmt': src_fmt, 'encs': encs}
    out = []

    def bad(kind, detail):
        out.append({'kind': kind, 'where': 'transform --split', 'case': case,
                    'detail': '%s [%d trees, --split %s --dest-format %s%s]'
                              % (detail, size, spec, fmt, ' with filter_by_length gt 2' if use_filter else ''),
                    'what': '--split: ' + kind})
    d = scratch()
    src = os.path.join(d, 'c17.' + src_fmt)
    for old in glob.glob(os.path.join(d, 'c17out') + '*'):
        os.unlink(old)
    if size % 3 == 0:
        src = os.path.join(d, 'c17out.0')       # the source file has the name the first part will get (it is read before it is replaced)
    src_enc, dest_enc = encs or ('utf-8', 'utf-8')
    with open(src, 'w', encoding=src_enc) as f:
        if src_fmt == 'tigerxml':
            f.write(codecs.encode_tigerxml(mts, encoding=src_enc))
        else:
            f.write({'export': codecs.encode_export, 'brackets': codecs.encode_brackets,
                     'discobrackets': codecs.encode_discobrackets}[src_fmt](mts))
    dest = os.path.join(d, 'c17out')
    argv = ['transform', src, dest, '--src-format', src_fmt, '--dest-format', fmt, '--split', spec]
    if encs:
        argv += ['--src-enc', src_enc, '--dest-enc', dest_enc]
    kept = mts
    if use_filter == 2:
        # "at most two words, punctuation not counted": the length that decides is the length after the deletion
        argv += ['--trans', 'punctuation_delete', 'filter_by_length', '--params', 'filteroperator:gt', 'filtervalue:2', 'quiet']
        from .c11 import ref_delete
        kept = [m2 for m2 in (ref_delete(m, [m.n()]) if m.n() >= 2 else m for m in mts) if m2.n() <= 2]
    elif use_filter:
        argv += ['--trans', 'filter_by_length', '--params', 'filteroperator:gt', 'filtervalue:2']
        kept = [m for m in mts if m.n() <= 2]
    exp_parts = ref_split(spec, len(kept))
    st, so, se, exc = cli.run(argv)
    files = sorted(glob.glob(dest + '.*'), key=lambda p: int(p.rsplit('.', 1)[1]))
    if exp_parts is None:
        if st == 0:
            bad('not-rejected', 'specification accepted, files %r' % [os.path.basename(f) for f in files])
        return out, False
    if st != 0:
        bad('cli-failed', 'exit status %r %s' % (st, cli.describe(exc)))
        return out, True
    if [os.path.basename(f) for f in files] != ['c17out.%d' % i for i in range(len(exp_parts))]:
        bad('part-files', 'files written: %r, expected %d parts' % ([os.path.basename(f) for f in files], len(exp_parts)))
        return out, True
    pos = 0
    for i, (path, k) in enumerate(zip(files, exp_parts)):
        try:
            with open(path, 'rb') as f:
                raw = f.read()
            text = raw if fmt == 'tigerxml' else raw.decode(dest_enc)
        except UnicodeDecodeError as e:
            bad('part-encoding', 'part %d is not written in the destination encoding %s: %s' % (i, dest_enc, e))
            continue
        want = expected_part(fmt, kept[pos:pos + k])
        pos += k
        try:
            got = decode_part(fmt, text)
        except codecs.DecodeError as e:
            bad('part-not-a-document', 'part %d is not a complete %s file: %s' % (i, fmt, e))
            continue
        if got != want:
            bad('part-content', 'part %d holds %r, expected %r' % (i, [g[0] for g in got], [w[0] for w in want]))
        # the corresponding reader accepts the part
        if fmt != 'terminals':
            try:
                trees_ = list(getattr(treeinput, fmt)(path, dest_enc, quiet=True))
                got2 = []
                for t in trees_:
                    probs = monitor(t)
                    if probs:
                        bad('reader-ill-formed', 'part %d read back: %s' % (i, '; '.join(probs)))
                        break
                    got2.append([x['word'] for x in extract(t).toks])
                else:
                    if got2 != [w[0] for w in want]:
                        bad('reader-content', 'part %d read back by the tool: %r, expected %r' % (i, got2, [w[0] for w in want]))
            except Exception as e:
                bad('reader-rejects-part', 'the %s reader fails on part %d: %s: %s' % (fmt, i, type(e).__name__, e))
    return out, sum(1 for k in exp_parts if k) >= 2


TRANS_VARIANTS = [['add_topnode', 'negra_mark_heads'], ['negra_mark_heads', 'binarize', 'add_topnode'],
                  ['root_attach', 'negra_mark_heads', 'boyd_split', 'raising'], ['punctuation_root', 'add_topnode', 'root_attach']]


def check_cli_trans(fmt, size, spec, trans, src_variant=None):
    """The parts taken in order must reproduce the UNSPLIT output of the same command line.
    src_variant 'tiger-nontree': TIGER-XML source whose second sentence is not a tree (an unattached extra
    terminal); whatever the reader makes of it, split and unsplit runs must agree."""
    mts = bank(size)
    case = {'cli': True, 'trans': trans, 'fmt': fmt, 'size': size, 'spec': spec, 'src_variant': src_variant}
    out = []

    def bad(kind, detail):
        out.append({'kind': kind, 'where': 'transform --split --trans', 'case': case,
                    'detail': '%s [%d trees, --trans %s --split %s --dest-format %s]' % (detail, size, ' '.join(trans), spec, fmt),
                    'what': '--split with transformations: ' + kind})
    d = scratch()
    src = os.path.join(d, 'c17t.export')
    src_fmt = 'export'
    if src_variant == 'tiger-nontree':
        src_fmt = 'tigerxml'
        text = codecs.encode_tigerxml(mts)
        cut = text.find('<terminals>', text.find('<terminals>') + 1)
        if cut < 0:
            return out
        cut += len('<terminals>')
        text = text[:cut] + '<t id="stray_99" word="stray" pos="X" morph="--" lemma="--"/>' + text[cut:]
        with open(src, 'w', encoding='utf-8') as f:
            f.write(text)
    else:
      with open(src, 'w', encoding='utf-8') as f:
        f.write(codecs.encode_export(mts))
    whole = os.path.join(d, 'c17t.whole')
    dest = os.path.join(d, 'c17t.out')
    for old in glob.glob(dest + '*'):
        os.unlink(old)
    base = ['--src-format', src_fmt, '--dest-format', fmt, '--trans'] + trans
    if src_variant:
        base += ['--src-opts', 'quiet']
    st0, _, _, exc0 = cli.run(['transform', src, whole] + base)
    st1, _, _, exc1 = cli.run(['transform', src, dest] + base + ['--split', spec])
    if st0 != 0:
        bad('cli-failed', 'unsplit run: exit status %r %s' % (st0, cli.describe(exc0)))
        return out
    ntrees = size
    if src_variant:
        try:
            ntrees = len(decode_part(fmt, codecs.read_out(whole)))     # as many as the unsplit run wrote
        except (codecs.DecodeError, IOError) as e:
            bad('part-not-a-document', 'unsplit output: %s' % e)
            return out
    exp_parts = ref_split(spec, ntrees)
    if exp_parts is None:
        if st1 == 0:
            bad('not-rejected', 'specification accepted')
        return out
    if st1 != 0:
        bad('cli-failed', 'split run: exit status %r %s' % (st1, cli.describe(exc1)))
        return out
    try:
        want = decode_part(fmt, codecs.read_out(whole))
        got = []
        for i in range(len(exp_parts)):
            got.extend(decode_part(fmt, codecs.read_out('%s.%d' % (dest, i))))
    except (codecs.DecodeError, IOError) as e:
        bad('part-not-a-document', str(e))
        return out
    if got != want:
        bad('parts-differ-from-unsplit', 'concatenated parts %r, unsplit output %r' % (got, want))
    # the caller's namespace is the caller's: the same argparse namespace handed to the command twice (only the
    # destination changed in between) must give the same parts twice
    try:
        if src_fmt == 'export':
            # (grammatical functions on every node, so that the writer options show in the output)
            def fe(nd):
                return nd if isinstance(nd, int) else (nd[0], 'OA', tuple(fe(k) for k in nd[2]))
            emts = [model.MT(m.sid, [dict(tk, edge=('SB', 'HD')[j % 2]) for j, tk in enumerate(m.toks)], fe(m.root)) for m in mts]
            src = os.path.join(d, 'c17te.export')
            with open(src, 'w', encoding='utf-8') as f:
                f.write(codecs.encode_export(emts))
        ns = cli.parse(['transform', src, dest + '.a'] + base + ['--dest-opts', 'gf', 'gf_separator:#', '--split', spec])
        sta, _, _, exca = cli.call(ns)
        ns.dest = dest + '.b'
        stb, _, _, excb = cli.call(ns)
        pa = {os.path.basename(f)[len('c17t.out.a'):]: open(f, 'rb').read() for f in sorted(glob.glob(dest + '.a*'))}
        pb = {os.path.basename(f)[len('c17t.out.b'):]: open(f, 'rb').read() for f in sorted(glob.glob(dest + '.b*'))}
        if (sta == 0) != (stb == 0):
            bad('namespace-reuse', 'first run exit status %r, second run with the same namespace %r %s' % (sta, stb, cli.describe(excb)))
        elif sta == 0 and pa != pb:
            k = next(k for k in sorted(set(pa) | set(pb)) if pa.get(k) != pb.get(k))
            bad('namespace-reuse', 'the same namespace handed in twice: part %r of the second run differs (%r ... vs %r ...)'
                % (k, (pb.get(k) or b'')[:120], (pa.get(k) or b'')[:120]))
    except Exception as e:
        bad('exception', 'namespace reuse: %s: %s' % (type(e).__name__, e))
    return out


def cli_specs(size):
    atoms = ['0#', '1#', '2#', '50%', '33%', 'rest', '100%', '%d#' % (size + 1)]
    specs = list(atoms)
    specs += ['%s_%s' % (a, b) for a in atoms for b in atoms if not (a == 'rest' and b == 'rest')]
    specs += ['1#_1#_rest', '33%_33%_33%', 'rest_1#_10%']
    return specs


def check_case(case):
    with quiet():
        if case.get('cli'):
            if case.get('trans'):
                return check_cli_trans(case['fmt'], case['size'], case['spec'], case['trans'], case.get('src_variant'))
            return check_cli(case['fmt'], case['size'], case['spec'], case['filter'], case.get('src_fmt', 'export'),
                             tuple(case['encs']) if case.get('encs') else None)[0]
        return check_spec(case['spec'], case['size'])[0]


def run_chunk(chunk):
    res = Result()

    def take(vs, nt, key):
        res.evals += 1
        res.nontrivial += 1 if nt else 0
        res.outcome((key, len(vs)))
        for v in vs:
            res.violation(v['kind'], v['where'], v['case'], v['detail'], v['what'])
    with quiet():
        kind = chunk['kind']
        if kind == 'percent':
            for p in range(chunk['lo'], min(101, chunk['hi'])):
                for size in range(0, 301):
                    for spec in ('%d%%_rest' % p, '%d%%' % p):
                        vs, exp = check_spec(spec, size)
                        take(vs, (p * size) % 100 != 0, (spec, size))
            res.sample({'spec': spec, 'sizes': '0..300'})
        elif kind == 'specs':
            for k in range(1, chunk['P'] + 1):
                for rest_ in itertools.product(ATOMS, repeat=k - 1):
                    atoms = (chunk['first'],) + rest_
                    if atoms.count('rest') > 1:
                        continue
                    spec = '_'.join(atoms)
                    for size in range(0, chunk['S'] + 1):
                        vs, exp = check_spec(spec, size)
                        take(vs, exp is None or any('%' in a and (int(a[:-1]) * size) % 100 for a in atoms), (spec, size))
            res.sample({'spec': spec, 'sizes': '0..%d' % chunk['S']})
        elif kind == 'malformed':
            for spec in MALFORMED + ['rest_' + m for m in MALFORMED if m] + [m + '_rest' for m in MALFORMED if m and 'rest' not in m]:
                for size in range(0, chunk['S'] + 1):
                    vs, exp = check_spec(spec, size)
                    take(vs, True, (spec, size))
            res.sample({'malformed_specs': MALFORMED})
        else:
            spec = None
            srcs = ['export', 'brackets', 'tigerxml', 'discobrackets']
            for si, spec in enumerate(cli_specs(chunk['size'])):
                for use_filter in (False, True):
                    src_fmt = srcs[(si + use_filter) % len(srcs)] if chunk['size'] else 'export'
                    vs, nt = check_cli(chunk['fmt'], chunk['size'], spec, use_filter, src_fmt)
                    take(vs, nt, (chunk['fmt'], chunk['size'], spec, use_filter, src_fmt))
            if chunk['size'] >= 2:
                for spec2 in ('1#_rest', '50%_50%', 'rest', '2#_rest'):
                    for src_fmt in ('export', 'tigerxml'):
                        vs, nt = check_cli(chunk['fmt'], chunk['size'], spec2, 2, src_fmt)
                        take(vs, nt, (chunk['fmt'], chunk['size'], spec2, 'delete+filter', src_fmt))
            if chunk['size'] >= 2:
                for encs in (('latin-1', 'utf-8'), ('utf-8', 'latin-1'), ('utf-16', 'utf-8')):
                    for spec2 in ('1#_rest', '50%_50%'):
                        vs, nt = check_cli(chunk['fmt'], chunk['size'], spec2, False, 'export', encs)
                        take(vs, nt, (chunk['fmt'], chunk['size'], spec2, encs))
            if chunk['size'] >= 2 and chunk['fmt'] in ('export', 'tigerxml', 'discobrackets'):
                for trans in TRANS_VARIANTS:
                    for spec2 in ('1#_rest', 'rest_1#', '50%_50%', '1#_1#_rest'):
                        take(check_cli_trans(chunk['fmt'], chunk['size'], spec2, trans), True,
                             (chunk['fmt'], chunk['size'], spec2, tuple(trans)))
            if chunk['size'] >= 3 and chunk['fmt'] in ('export', 'discobrackets'):
                for spec2 in ('1#_rest', '50%_50%', '1#_1#_rest'):
                    take(check_cli_trans(chunk['fmt'], chunk['size'], spec2, TRANS_VARIANTS[0], 'tiger-nontree'), True,
                         (chunk['fmt'], chunk['size'], spec2, 'tiger-nontree'))
            res.sample({'cli': 'treetools transform SRC DEST --dest-format %s --split %s' % (chunk['fmt'], spec),
                        'treebank_size': chunk['size']})
    return res
