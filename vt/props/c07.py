"""C07 Grammar binarization preserves every rule's yield function."""
import os
import itertools
import collections
from .. import model, lcfrs
from ..runner import Result, scratch
from ..bridge import quiet

from trees import grammarconst
from trees import grammar, grammaroutput

ID = 'C07'
LEVEL = 'exploration'
TECHNIQUE = 'bounded exhaustive enumeration of canonical LCFRS rules x binarization modes, reference LCFRS composition / un-binarization'

LHS = 'A'


def is_bin(label):
    return label.startswith('@')


def configs(tier):
    out = []
    for reord in ('none', 'optimal'):
        out.append({'reordering': reord, 'markov': None})
        vs = (0, 1, 2, 3)
        for v in vs:
            for h in vs:
                for nf in (False, True):
                    out.append({'reordering': reord, 'markov': {'v': v, 'h': h, 'nofanout': nf}})
    return out


def plan(tier, seed):
    R, V = (5, 7) if tier == 'quick' else (6, 8)
    lins = sum(1 for _ in lcfrs.canonical_lins(R, V))
    nchunks = 64 if tier == 'quick' else 256
    chunks = [{'kind': 'rules', 'R': R, 'V': V, 'mod': nchunks, 'rem': i, 'tier': tier} for i in range(nchunks)]
    nx = 5 if tier == 'quick' else 6
    chunks += [{'kind': 'noncanon', 'mod': 8, 'rem': r, 'V': 5 if tier == 'quick' else 6} for r in range(8)]
    chunks += [{'kind': 'extracted', 'n': nx, 'mod': 16, 'rem': r} for r in range(16)]
    return {
        'chunks': chunks + [{'kind': 'clipipe-grammar'}],
        'rule': 'every ordered, non-deleting, non-erasing rule in canonical form with rank <= %d and <= %d variables '
                '(%d rules) as a one-rule grammar x {no reordering, optimal} x {deterministic} U {Markov v,h in '
                '0..3 x nofanout on/off}%s; plus every grammar extracted from single trees of all shapes n <= N '
                'with unique and with all-equal labels (so that one production has several linearizations), deterministic and '
                'Markov modes: every rule recoverable by composition; deterministic: un-binarized by the reference; all-equal labels: the RCG and PMCFG files of the binarized grammar decode to the same yield functions. non-trivial = distinct (rule, mode) cases of '
                'rank > 2' % (R, V, lins, '' if tier != 'quick' else ' (quick: Markov grid v,h in {0,1,3} only for rank <= 4)'),
        'bound': 'rank <= %d, variables <= %d' % (R, V),
        'exhaustive': True,
        'assumptions': ['driver differential (vt/clipipe.py): `treetools grammar` in 11 type / Markov / format / prefix combinations on a six-sentence treebank (same rule under contexts that differ at depth 1 and in fan-out only, one production with two linearizations, a five-child node with equal middle labels) must write, under the prefix given, what extraction + binarization + writer give through the library',
                        'RHS labels of the enumerated rules are pairwise distinct so that a reordering can be read off the result'],
    }


def run_binarize(gram, cfg):
    args = {}
    args['reordering'] = grammar.reordering_none if cfg['reordering'] == 'none' else grammar.reordering_optimal
    if cfg['markov'] is not None:
        mo = {'v': cfg['markov']['v'], 'h': cfg['markov']['h']}
        if cfg['markov']['nofanout']:
            mo['nofanout'] = True
        args['markov_opts'] = mo
    else:
        args['markov_opts'] = None
    if cfg.get('verb'):
        args['verb'] = True             # the statistics printed in verbose mode must not change the result
    return grammar.binarize(gram, **args)


_FAILED = [0]


def failed_binarize():
    """A failed call is part of the history: a grammar with a malformed linearization is rejected somewhere inside
    binarization (under both reorderings, with and without markovization); nothing of it may show in the next call."""
    # (the malformed element in every position, so that the call is abandoned at different depths - rotating)
    _FAILED[0] += 1
    lin = [(((0, 0), (2,), (1, 0)),), (((0, 0), (1, 0), (2,)),), (((2,), (0, 0), (1, 0)),),
           (((0, 0), (1, 0)), ((0, 1), (2,))), (((1, 0), (0, 0), (1, 1)), ((2,),))][_FAILED[0] % 5]
    bad_gram = {('S', 'A', 'B', 'C'): {lin: {('S%d' % len(lin), 'ROOT1'): 1}}}
    for kw in ({'reordering': grammar.reordering_optimal}, {'reordering': grammar.reordering_none},
               {'reordering': grammar.reordering_optimal, 'markov_opts': {'v': 1, 'h': 1}}):
        try:
            grammar.binarize(bad_gram, **kw)
        except Exception:
            pass


def check_rule(rank, lin, cfg):
    lin = tuple(tuple(tuple(v) for v in arg) for arg in lin)
    func = (LHS,) + tuple('B%d' % i for i in range(rank))
    case = {'rank': rank, 'lin': lin, 'cfg': cfg}
    out = []

    def bad(kind, detail):
        out.append({'kind': kind, 'where': 'grammar.binarize', 'case': case,
                    'detail': '%s [rule %s %r, mode %r]' % (detail, ' '.join(func), lin, cfg),
                    'what': 'binarize: ' + kind})
    gram = {func: {lin: {(LHS + str(len(lin)), 'ROOT1'): 1}}}
    if rank % 2 == 1:
        failed_binarize()
    try:
        result = run_binarize(gram, cfg)
    except Exception as e:
        bad('exception', '%s: %s' % (type(e).__name__, e))
        return out
    for f in result:
        if len(f) - 1 > 2:
            bad('rank', 'result rule %r has more than two RHS elements' % (f,))
        if len(f) - 1 < 1:
            bad('rank', 'result rule %r has no RHS' % (f,))
    want = lcfrs.relabel_lin(lin, func[1:])
    if rank <= 2:
        ok = False
        for f, lins in result.items():
            if f[0] == LHS and sorted(f[1:]) == sorted(func[1:]):
                for l in lins:
                    if lcfrs.relabel_lin(l, f[1:]) == want and (cfg['reordering'] != 'none' or f == func):
                        ok = True
        if not ok or len(result) != 1:
            bad('small-rule-changed', 'rule of rank %d became %r' % (rank, result))
        return out
    found = False
    orders = set()
    for labels, composed in lcfrs.find_chains(result, LHS, func[1:], is_bin):
        orders.add(labels)
        if cfg['reordering'] == 'none' and labels != func[1:]:
            continue
        if lcfrs.relabel_lin(composed, labels) == want:
            found = True
            break
    if not found:
        bad('yield-changed', 'no chain of the binarized grammar %r composes to the original linearization '
            '(chains found for RHS orders %r)' % (result, sorted(orders)))
    if cfg['markov'] is None:
        # unique symbols, single fan-out, un-binarization gives the rule back
        try:
            back = lcfrs.unbinarize(result, is_bin)
        except ValueError as e:
            bad('not-unique', str(e))
            return out
        ok = False
        for f, lins in back.items():
            for l in lins:
                if f[0] == LHS and lcfrs.relabel_lin(l, f[1:]) == want and \
                        (cfg['reordering'] != 'none' or f == func):
                    ok = True
        if not ok or len(back) != 1:
            bad('unbinarize', 'un-binarizing gives %r' % back)
    return out


def check_extracted(mtj, cfg):
    mt = model.MT.from_json(mtj)
    case = {'mt': mtj, 'cfg': cfg}
    out = []
    eg, _ = lcfrs.ref_extract([mt])
    try:
        if mt.n() % 2 == 1:
            # a grammar with a history: loaded from a grammar file (rules carry the dummy context only) and extended
            # by extraction afterwards (real contexts next to it) - here every other rule is a loaded one and
            # every fourth one was seen again after loading.  The reference grammar is changed, the copy handed to
            # the tool is made from it.
            for k, f in enumerate(sorted(eg)):
                for l in eg[f]:
                    if k % 2 == 0:
                        n = sum(eg[f][l].values())
                        keep = dict(eg[f][l]) if k % 4 == 0 else {}
                        eg[f][l] = dict(keep)
                        eg[f][l][grammarconst.DEFAULT_VERT] = n
        g0 = {f: {l: dict(v) for l, v in lins.items()} for f, lins in eg.items()}
        result = run_binarize(g0, cfg)
        lost = check_chains(eg, result, cfg)
        if lost:
            out.append({'kind': 'yield-changed', 'where': 'grammar.binarize', 'case': case,
                        'detail': 'no chain of the binarized grammar composes to: %s [tree %s, mode %r]'
                                  % ('; '.join(lost[:3]), model.mt_str(mt.root, mt.toks), cfg),
                        'what': 'binarize: a rule of an extracted grammar is not recoverable by composition'})
        if all(not f[0][-1:].isdigit() for f in eg):
            # the yield functions as they reach the grammar files (labels the RCG format can carry)
            from . import c09
            dest = os.path.join(scratch(), 'c07g%d' % os.getpid())
            for fmt, dec in (('rcg', c09.decode_rcg), ('pmcfg', c09.decode_pmcfg)):
                getattr(grammaroutput, fmt)(result, {}, dest, 'utf-8')
                try:
                    got = dec(c09.read(dest + '.' + fmt, 'utf-8'))
                except c09.Bad as e:
                    got = 'malformed: %s' % e
                if got != c09.totals(result):
                    out.append({'kind': 'written-yield', 'where': 'grammaroutput.' + fmt, 'case': case,
                                'detail': 'the %s file of the binarized grammar decodes to %r, the grammar is %r [tree %s, mode %r]'
                                          % (fmt, got, c09.totals(result), model.mt_str(mt.root, mt.toks), cfg),
                                'what': 'the written binarized grammar has different yield functions'})
        if cfg['markov'] is not None:
            return out
        back = lcfrs.unbinarize(result, is_bin)
    except Exception as e:
        out.append({'kind': 'exception', 'where': 'grammar.binarize', 'case': case,
                    'detail': '%s: %s [tree %s]' % (type(e).__name__, e, model.mt_str(mt.root, mt.toks)),
                    'what': 'binarize/un-binarize raised'})
        return out
    want = collections.Counter()
    for f, lins in eg.items():
        for l, v in lins.items():
            want[(f[0], tuple(sorted(f[1:])), frozenset(_labelled(l, f[1:])))] += sum(v.values())
    got = collections.Counter()
    for f, lins in back.items():
        for l, c in lins.items():
            got[(f[0], tuple(sorted(f[1:])), frozenset(_labelled(l, f[1:])))] += c
    if cfg['reordering'] == 'none':
        exact_want = {f: {l: sum(v.values()) for l, v in lins.items()} for f, lins in eg.items()}
        if back != exact_want:
            out.append({'kind': 'unbinarize', 'where': 'grammar.binarize', 'case': case,
                        'detail': 'un-binarized grammar %r differs from the original %r [tree %s]'
                                  % (back, exact_want, model.mt_str(mt.root, mt.toks)),
                        'what': 'deterministic binarization is not reversible'})
    elif got != want and all(len(set(f[1:])) == len(f[1:]) for f in eg):
        out.append({'kind': 'unbinarize', 'where': 'grammar.binarize', 'case': case,
                    'detail': 'un-binarized grammar %r differs from the original %r up to RHS order [tree %s]'
                              % (back, eg, model.mt_str(mt.root, mt.toks)),
                    'what': 'deterministic binarization (optimal order) is not reversible'})
    return out


def equiv_up_to_labels(func, lin, labels, composed, identity_only):
    """Is the chain result (labels in chain order, composed lin over chain positions) the original rule
    (func, lin) up to a label-preserving permutation of the RHS?"""
    n = len(labels)
    if sorted(labels) != sorted(func[1:]):
        return False
    perms = [tuple(range(n))] if identity_only else itertools.permutations(range(n))
    for pi in perms:
        if any(labels[k] != func[1 + pi[k]] for k in range(n)):
            continue
        mapped = tuple(tuple((pi[i], j) for (i, j) in arg) for arg in composed)
        if mapped == lin:
            return True
    return False


def check_chains(eg, result, cfg):
    """Every original rule of rank > 2 must be the composition of some chain of the result."""
    probs = []
    for func, lins in eg.items():
        for lin in lins:
            if len(func) - 1 <= 2:
                ok = any(f[0] == func[0] and equiv_up_to_labels(func, lin, f[1:], l, cfg['reordering'] == 'none')
                         for f, ls in result.items() if len(f) == len(func) for l in ls)
            else:
                ok = any(equiv_up_to_labels(func, lin, labels, composed, cfg['reordering'] == 'none')
                         for labels, composed in lcfrs.find_chains(result, func[0], func[1:], is_bin))
            if not ok:
                probs.append('%s with linearization %r' % (' '.join(func), lin))
    return probs


def _labelled(lin, labels):
    """Position-independent rendering of a lin (only meaningful when labels are distinct)."""
    return [(ai, pi, labels[i], j) for ai, arg in enumerate(lin) for pi, (i, j) in enumerate(arg)]


def check_case(case):
    if 'grammar_run' in case:
        from .. import clipipe
        return clipipe.replay_grammar(case)
    with quiet():
        if 'mt' in case:
            return check_extracted(case['mt'], case['cfg'])
        return check_rule(case['rank'], case['lin'], case['cfg'])


def noncanonical(rank, lin):
    """Well-formed rules outside the canonical form (they reach binarize through grammar files): every
    permutation of the right-hand side, and one variable split into two adjacent variables of the same element."""
    for perm in itertools.permutations(range(rank)):
        if perm == tuple(range(rank)):
            continue
        inv = {old: new for new, old in enumerate(perm)}
        yield tuple(tuple((inv[i], j) for (i, j) in arg) for arg in lin)
    occ = [(a, k) for a, arg in enumerate(lin) for k in range(len(arg))]
    for a, k in occ:
        i, j = lin[a][k]
        new = []
        for a2, arg in enumerate(lin):
            row = []
            for k2, (i2, j2) in enumerate(arg):
                if i2 == i and j2 > j:
                    row.append((i2, j2 + 1))
                elif (a2, k2) == (a, k):
                    row.extend([(i, j), (i, j + 1)])
                else:
                    row.append((i2, j2))
            new.append(tuple(row))
        yield tuple(new)


def run_chunk(chunk):
    if chunk.get('kind') == 'clipipe-grammar':
        from .. import clipipe
        res = Result()
        clipipe.run_grammar(res)
        return res
    res = Result()
    with quiet():
        if chunk['kind'] == 'extracted':
            cfgs = [{'reordering': 'none', 'markov': None}, {'reordering': 'optimal', 'markov': None},
                    {'reordering': 'none', 'markov': {'v': 1, 'h': 1, 'nofanout': False}},
                    {'reordering': 'optimal', 'markov': {'v': 1, 'h': 2, 'nofanout': False}},
                    {'reordering': 'optimal', 'markov': {'v': 0, 'h': 1, 'nofanout': True}}]
            mt = None
            idx = 0
            for n in range(1, chunk['n'] + 1):
                for sh, _ in model.shapes_with_unary(n, 1):
                  idx += 1
                  if idx % chunk['mod'] != chunk['rem']:
                      continue
                  for labels in ('path', 'A'):
                    mt = model.simple_mt(sh, labels=labels, pos=(['x'] * n if labels == 'A' else None))
                    for cfg in cfgs:
                        vs = check_extracted(mt.to_json(), cfg)
                        res.evals += 1
                        res.nontrivial += 1 if model.max_arity_of(sh) > 2 else 0
                        res.outcome((model.shape_str(sh), cfg['reordering'], len(vs)))
                        for v in vs:
                            res.violation(v['kind'], v['where'], v['case'], v['detail'], v['what'])
            if mt is not None:
                res.sample({'extracted_from': model.mt_str(mt.root), 'modes': cfgs})
            return res
        if chunk['kind'] == 'noncanon':
            cfgs = [{'reordering': 'none', 'markov': None}, {'reordering': 'optimal', 'markov': None},
                    {'reordering': 'none', 'markov': {'v': 1, 'h': 1, 'nofanout': False}},
                    {'reordering': 'optimal', 'markov': {'v': 1, 'h': 2, 'nofanout': True}}]
            last = None
            k = 0
            for rank, lin in lcfrs.canonical_lins(4, chunk['V']):
                if rank < 3:
                    continue
                for lin2 in noncanonical(rank, lin):
                    k += 1
                    if k % chunk['mod'] != chunk['rem']:
                        continue
                    for cfg in cfgs:
                        vs = check_rule(rank, lin2, cfg)
                        res.evals += 1
                        res.nontrivial += 1
                        res.outcome((lin2, repr(cfg), len(vs)))
                        for v in vs:
                            res.violation(v['kind'], v['where'], v['case'], v['detail'], v['what'])
                    last = {'rule': 'A -> ' + ' '.join('B%d' % i for i in range(rank)), 'linearization': repr(lin2)}
            if last:
                res.sample(last)
            return res
        cfgs = configs(chunk['tier'])
        last = None
        for idx, (rank, lin) in enumerate(lcfrs.canonical_lins(chunk['R'], chunk['V'])):
            if idx % chunk['mod'] != chunk['rem']:
                continue
            for cfg in cfgs:
                if chunk['tier'] == 'quick' and cfg['markov'] is not None and \
                        (rank > 4 or cfg['markov']['v'] == 2 or cfg['markov']['h'] == 2):
                    continue
                vs = check_rule(rank, lin, cfg)
                res.evals += 1
                res.nontrivial += 1 if rank > 2 else 0
                res.outcome((lin, repr(cfg), len(vs)))
                for v in vs:
                    res.violation(v['kind'], v['where'], v['case'], v['detail'], v['what'])
            last = {'rule': 'A -> ' + ' '.join('B%d' % i for i in range(rank)), 'linearization': repr(lin),
                    'modes': len(cfgs)}
        if last:
            res.sample(last)
    return res
