"""C06 Grammar extraction is faithful to the treebank."""
import itertools
import collections
from .. import model, sweep, lcfrs
from ..runner import Result
from ..bridge import T, build, quiet, build_via_export, extract, monitor, build_any
from ..runner import scratch

from trees import grammar, grammaranalysis, transform

ID = 'C06'
LEVEL = 'exploration'
TECHNIQUE = 'bounded exhaustive enumeration of small treebanks, rule re-instantiation oracle (reference extraction by block tiling)'

LABS = ['A', 'B']
POSS = ['x', 'y']


def plan(tier, seed):
    specs = [(1, 2), (2, 2), (3, 1), (4, 1), (5, 0)] if tier == 'quick' else [(1, 3), (2, 2), (3, 2), (4, 1), (5, 1), (6, 0)]
    dev = 2
    chunks = sweep.shape_chunks(specs, per_chunk=16, big=True, kind='single', dev=dev)
    pool_n = 3
    chunks.append({'kind': 'pairs', 'n': pool_n, 'k': 2 if tier == 'quick' else 3})
    return {
        'chunks': chunks + [{'kind': 'clipipe-grammar'}],
        'rule': 'single-tree treebanks: every hierarchy over n tokens (<= u unary) x every assignment of '
                'constituent labels from {A,B} and POS tags from {x,y} within %d deviations of all-A/all-x '
                '(words repeat so that lexicon counts exceed 1); multi-tree treebanks: every sequence of k trees '
                'from the pool of all shapes n <= %d with all-A labels. grammar dict and lexicon compared with the '
                'reference extraction (block tiling), fan-out vectors, per-label count sums, context-freeness. '
                'non-trivial = distinct treebanks with a discontinuous node or a count > 1' % (dev, pool_n),
        'bound': ', '.join('n=%d:u<=%d' % s for s in specs) + '; label deviations <= %d' % dev,
        'exhaustive': True,
        'assumptions': ['driver differential (vt/clipipe.py): `treetools grammar` in 11 type / Markov / format / prefix combinations on a six-sentence treebank (same rule under contexts that differ at depth 1 and in fan-out only, one production with two linearizations, a five-child node with equal middle labels) must write, under the prefix given, what extraction + binarization + writer give through the library',
                        'labels carry no trailing digit (the vertical context appends the fan-out)',
                        'each single-tree treebank is extracted three ways: API-built, API-built with reversed child lists, and '
                        'written as an export file (tokens #1, #12, #1234, which are not node references), read back, made '
                        'continuous and extracted; the tree read must hold exactly the tokens of the file'],
    }


def label_variants(sh, dev):
    """Model trees for a shape: labels/POS within `dev` deviations of all-A / all-x."""
    n = len(model.leaves(sh))
    cons = [p for p, _ in model.nodes_of(sh) if p != ()]
    slots = [('c', p) for p in cons] + [('t', i) for i in range(n)]
    for r in range(0, dev + 1):
        for sub in itertools.combinations(range(len(slots)), r):
            devs = set(slots[i] for i in sub)
            root = model.decorate(sh, lambda p, s: 'B' if ('c', p) in devs else 'A')
            pos = ['y' if ('t', i) in devs else 'x' for i in range(n)]
            words = ['w%d' % (i % 2) for i in range(n)]
            yield model.MT(1, model.mk_tokens(n, words=words, pos=pos), root)
    # the default literals as real data: inner nodes labelled like the root, tokens tagged VROOT / EMPTY
    root = model.decorate(sh, lambda p, s: 'VROOT')
    yield model.MT(1, model.mk_tokens(n, words=['w%d' % (i % 2) for i in range(n)],
                                      pos=[['VROOT', 'EMPTY', 'x'][i % 3] for i in range(n)]), root)
    # words that differ only in Unicode normalisation are different words
    yield model.MT(1, model.mk_tokens(n, words=[['caf\u00e9', 'cafe\u0301', '\u212b', '\u00c5'][i % 4] for i in range(n)],
                                      pos=['x'] * n), model.decorate(sh, lambda p, s: 'A'))


def norm(g):
    return {f: {l: dict(v) for l, v in lins.items()} for f, lins in g.items()}


def check_bank(mtjs, order=None):
    mts = [model.MT.from_json(j) for j in mtjs]
    case = {'bank': mtjs, 'order': order}
    out = []

    def bad(kind, detail):
        out.append({'kind': kind, 'where': 'grammar.extract', 'case': case,
                    'detail': '%s [treebank %s]' % (detail, [model.mt_str(m.root, m.toks) for m in mts]),
                    'what': 'extract: ' + kind})
    g, lex = {}, {}
    try:
        if order == 'export+raise':
            # trees as users have them: read by the export reader, made continuous in place, then extracted
            # (with tokens that resemble, but are not, export node references)
            live = []
            remap = {'w0': '#1', 'w1': '#12', 'w': '#1234'}
            for mt in mts:
                toks = [dict(tk, word=remap.get(tk['word'], tk['word'])) for tk in mt.toks]
                t = build_via_export(model.MT(mt.sid, toks, ('VROOT', '--', mt.root[2])), scratch())
                read = [(x.data['word'], x.data['label']) for x in T.terminals(t)]
                if read != [(tk['word'], tk['pos']) for tk in toks]:
                    bad('file-tokens', 'the export file holds the tokens %r, the tree read from it %r'
                        % ([(tk['word'], tk['pos']) for tk in toks], read))
                    return out, False
                for name in ('root_attach', 'negra_mark_heads', 'boyd_split', 'raising'):
                    t = getattr(transform, name)(t)
                live.append(t)
                if monitor(t):
                    return out, False       # C05's business
            mts = [extract(t) for t in live]
            for t in live:
                grammar.extract(t, g, lex)
        elif order == 'written':
            # tree objects that were written once (constituents carry export numbers) and are extracted afterwards
            for mt in mts:
                ret = grammar.extract(build_any(mt, 'written'), g, lex)
        elif order == 'collapse':
            # trees restructured in place by another transformation before extraction
            live = [transform.collapse_unary_chains(build(mt)) for mt in mts]
            if any(not t.children for t in live):
                return out, False
            mts = [extract(t) for t in live]
            for t in live:
                grammar.extract(t, g, lex)
        elif order == 'two-grammars':
            # a one-pass split: the trees go alternately into this grammar and into a second one (which also gets
            # every tree of this one a second time, so that the same rules occur on both sides of every switch)
            g_b, lex_b = {}, {}
            for mt in mts:
                grammar.extract(build(mt), g, lex)
                grammar.extract(build(mt), g_b, lex_b)
                grammar.extract(build(mt), g_b, lex_b)
            eg_b, _ = lcfrs.ref_extract(mts + mts)
            if norm(g_b) != eg_b:
                bad('grammar-mismatch', 'second grammar of a one-pass split: recorded %r, expected %r'
                    % ({f: l for f, l in norm(g_b).items() if eg_b.get(f) != l}, {f: l for f, l in eg_b.items() if norm(g_b).get(f) != l}))
        elif order == 'refused':
            # a refused tree in the middle of the history: before every tree, the same tree with one constituent emptied
            # by hand is offered to the same grammar and lexicon; the refusal must leave both as they were
            from ..bridge import refused_extract
            for mt in mts:
                refused_extract(mt, g, lex)
                grammar.extract(build(mt), g, lex)
        elif order == 'snapshot':
            # a grammar that is used while it still grows: after every tree a binarized snapshot is taken
            # (deterministic and markovized; the results are dropped), then extraction goes on
            for mt in mts:
                grammar.extract(build(mt), g, lex)
                grammar.binarize(g)
                grammar.binarize(g, reordering=grammar.reordering_optimal)
                grammar.binarize(g, markov_opts={'v': 1, 'h': 1})
                grammar.binarize(g, markov_opts={'v': 2, 'h': 1, 'nofanout': True})
                # ... and it is written out in every format and analysed (files dropped)
                import os
                from trees import grammaroutput
                dest = os.path.join(scratch(), 'snap%d' % os.getpid())
                for fmt in ('pmcfg', 'rcg', 'lopar'):
                    try:
                        getattr(grammaroutput, fmt)(g, lex, dest, 'utf-8')
                    except Exception:
                        pass        # the LoPar writer refuses grammars with fan-out > 1; the writers are C09's business
                for ext in ('pmcfg', 'rcg', 'lex', 'gram', 'start', 'oc', 'OC'):
                    if os.path.exists(dest + '.' + ext):
                        os.unlink(dest + '.' + ext)
                grammaranalysis.is_contextfree(g)
            grammar.extract(build(mts[-1]), g, lex)
            mts = mts + [mts[-1]]
        else:
            for mt in mts:
                ret = grammar.extract(build(mt, child_order=order), g, lex)
                if ret is not g:
                    bad('return', 'extract does not return the grammar dict it was given')
    except Exception as e:
        bad('exception', '%s: %s' % (type(e).__name__, e))
        return out, False
    eg, elex = lcfrs.ref_extract(mts)
    if norm(g) != eg:
        extra = {f: l for f, l in norm(g).items() if eg.get(f) != l}
        missing = {f: l for f, l in eg.items() if norm(g).get(f) != l}
        bad('grammar-mismatch', 'recorded %r, expected %r' % (extra, missing))
    if {w: dict(c) for w, c in lex.items()} != {w: dict(c) for w, c in elex.items()}:
        bad('lexicon-mismatch', 'lexicon %r, expected %r' % ({w: dict(c) for w, c in lex.items()},
                                                           {w: dict(c) for w, c in elex.items()}))
    # derived claims
    nodes_per_label = collections.Counter()
    disc = False
    for mt in mts:
        for nd, _ in model.mt_nodes(mt.root):
            nodes_per_label[nd[0]] += 1
            disc = disc or model.mt_gap_degree(nd) > 0
    got_per_label = collections.Counter()
    big = False
    for func, lins in g.items():
        for lin, verts in lins.items():
            got_per_label[func[0]] += sum(verts.values())
            big = big or sum(verts.values()) > 1
            fo = grammaranalysis.fan_out(lin)
            exp_fo = [len(lin)] + lcfrs.fanouts(lin, len(func) - 1)
            if list(fo) != exp_fo:
                bad('fan-out', 'fan_out(%r) = %r, expected %r' % (lin, fo, exp_fo))
    if got_per_label != nodes_per_label:
        bad('count-sum', 'rule counts per LHS label %r, nodes per label %r' % (dict(got_per_label), dict(nodes_per_label)))
    cf = grammaranalysis.is_contextfree(g)
    if cf != (not disc):
        bad('contextfree', 'is_contextfree = %r but the treebank is %scontinuous' % (cf, 'dis' if disc else ''))
    return out, disc or big


def check_case(case):
    if 'grammar_run' in case:
        from .. import clipipe
        return clipipe.replay_grammar(case)
    with quiet():
        return check_bank(case['bank'], case.get('order'))[0]


def run_chunk(chunk):
    if chunk.get('kind') == 'clipipe-grammar':
        from .. import clipipe
        res = Result()
        clipipe.run_grammar(res)
        return res
    res = Result()

    def take(vs, nt, key):
        res.evals += 1
        res.nontrivial += 1 if nt else 0
        res.outcome((key, len(vs)))
        for v in vs:
            res.violation(v['kind'], v['where'], v['case'], v['detail'], v['what'])
    with quiet():
        if chunk['kind'] == 'single':
            for sh, k in sweep.iter_shapes(chunk):
                for mt in label_variants(sh, chunk['dev']):
                    for order in (None, 'rev', 'export+raise', 'written', 'snapshot', 'two-grammars', 'refused') + (('collapse',) if k else ()):
                        vs, nt = check_bank([mt.to_json()], order)
                        take(vs, nt, (mt.key(), order))
                res.sample({'treebank': [model.mt_str(mt.root, mt.toks)]})
        else:
            pool = []
            for n in range(1, chunk['n'] + 1):
                for sh, _ in model.shapes_with_unary(n, 1):
                    root = model.decorate(sh, lambda p, s: 'A')
                    pool.append(model.MT(1, model.mk_tokens(n, words=['w'] * n, pos=['x'] * n), root))
            for combo in itertools.product(range(len(pool)), repeat=chunk['k']):
                if chunk['k'] == 3 and combo[0] > 6:
                    continue
                bank = [model.MT(i + 1, pool[c].toks, pool[c].root) for i, c in enumerate(combo)]
                vs, nt = check_bank([m.to_json() for m in bank])
                take(vs, nt, combo)
            res.sample({'treebank': [model.mt_str(m.root, m.toks) for m in bank]})
    return res


# --- non-initial states: the oracle of this property in every state of the live-state pool
# (vt/livepool.py: BFS over live objects; vt/liveoracles.py: the oracles)
from .. import liveoracles as _lo
_plan0, _run_chunk0, _check_case0 = plan, run_chunk, check_case


def plan(tier, seed):
    p = _plan0(tier, seed)
    p['chunks'] = list(p['chunks']) + _lo.plan_chunks(tier)
    p['assumptions'] = list(p.get('assumptions', [])) + [_lo.assumption()]
    return p


def run_chunk(chunk):
    if chunk.get('kind') == 'live':
        return _lo.run_chunk(ID, chunk, Result())
    return _run_chunk0(chunk)


def check_case(case):
    if isinstance(case, dict) and isinstance(case.get('live'), dict):
        return _lo.replay(case)
    return _check_case0(case)
