"""C15 Head marking selects exactly one head child per constituent, as the rule says."""
import itertools
from .. import model, sweep, refs
from ..runner import Result, scratch
from ..bridge import T, build, quiet, monitor, all_nodes, raw_leaves, build_via_brackets, cli_options, build_any

from trees import transform, transformconst
from .. import headrules

ID = 'C15'
LEVEL = 'exploration'
TECHNIQUE = 'bounded exhaustive enumeration of shapes x edge assignments and of head-rule table entries x child sequences, rule oracle'

EDGES = ['HD', 'NK', '--']
DECOR = [lambda s: s, lambda s: s.upper(), lambda s: s.upper() + '-SBJ-1', lambda s: s.capitalize() + '=2',
         lambda s: s.upper() + "-HD'", lambda s: s.upper() + '=2-14', lambda s: s.upper() + '-1']


def rule_items():
    """(preset, parent category, listed child category) for every entry of both tables."""
    items = []
    for preset, table in (('negra', headrules.HEAD_RULES_NEGRA), ('ptb', headrules.HEAD_RULES_PTB)):
        for parent in sorted(table):
            listed = []
            for _, prio in table[parent]:
                listed.extend(prio.split())
            for child in sorted(set(listed)):
                items.append((preset, parent, child, sorted(set(listed))))
    return items


def plan(tier, seed):
    specs = [(1, 1), (2, 1), (3, 1), (4, 1)] if tier == 'quick' else [(1, 2), (2, 2), (3, 2), (4, 1), (5, 0)]
    chunks = sweep.shape_chunks(specs, per_chunk=4, kind='negra')
    items = rule_items()
    maxlen = 3 if tier == 'quick' else 4
    for i in range(0, len(items), 12):
        chunks.append({'kind': 'rules', 'lo': i, 'hi': min(len(items), i + 12), 'maxlen': maxlen})
    chunks.append({'kind': 'reject'})
    chunks.append({'kind': 'anyparent', 'maxlen': maxlen})
    return {
        'chunks': chunks + [{'kind': 'clipipe'}],
        'rule': 'NeGra heuristic: every hierarchy over n tokens (<= u unary insertions) x every assignment of '
                '{HD,NK,--} to every child; rule presets: every (preset, parent category, listed child category) '
                'of both tables x child sequences of length 1..%d with the listed child at every position and '
                'unlisted categories elsewhere x 5 label decorations x children as tokens or constituents; the listed child '
                'next to one unlisted sister from the pinned tag sets of both treebanks and the tables\' own vocabulary; '
                'rejections. non-trivial = distinct cases in which the expected head is not the leftmost child'
                % maxlen,
        'bound': ', '.join('n=%d:u<=%d' % s for s in specs) + '; %d table entries, sequences <= %d' % (len(items), maxlen),
        'exhaustive': True,
        'assumptions': ['driver differential (vt/clipipe.py): `treetools transform` with the pipelines that involve this operation, with and without --split, on a six-sentence corpus must write what the named functions give when applied by the harness in the given order',
                        '"listed in the head rule" = occurs in any priority list of the parent category',
                        'every rule case is preceded by the same call under the other preset (forces collisions in any cache)'],
    }


def one_head_invariant(t, bad):
    if t.data.get('head') is not False:
        bad('root-flag', 'root head flag is %r, expected False' % t.data.get('head', '<absent>'))
    for x in all_nodes(t):
        if x.children:
            flags = [c.data.get('head', '<absent>') for c in x.children]
            if sorted(map(repr, flags)) != sorted(['True'] + ['False'] * (len(flags) - 1)):
                bad('one-head', 'children of %s carry head flags %r' % (x.data['label'], flags))


def check_negra(mtj, order=None):
    mt = model.MT.from_json(mtj)
    case = {'negra': mtj, 'order': order}
    out = []

    def bad(kind, detail):
        out.append({'kind': kind, 'where': 'negra_mark_heads', 'case': case,
                    'detail': '%s on %s' % (detail, model.mt_str(mt.root, mt.toks)),
                    'what': 'negra_mark_heads: ' + kind})
    try:
        t = build_any(mt, order)
        if order == 'rev':
            # non-initial state: the tree already carries head marks (every node marked as head, as a careless
            # earlier step might leave them); the heuristic must set all of them anew
            for x in all_nodes(t):
                x.data['head'] = True
        r = transform.negra_mark_heads(t)
    except Exception as e:
        bad('exception', '%s: %s' % (type(e).__name__, e))
        return out, False
    probs = monitor(r, mt.n())
    if r is not t:
        probs.append('returned a different node')
    if probs:
        bad('ill-formed', '; '.join(probs))
        return out, False
    one_head_invariant(r, bad)
    nontriv = False
    for x in all_nodes(r):
        if not x.children:
            continue
        ks = sorted(x.children, key=lambda c: min(l.data['num'] for l in raw_leaves(c)))
        exp = refs.negra_head_index([c.data['edge'] for c in ks])
        nontriv = nontriv or exp != 0
        got = [i for i, c in enumerate(ks) if c.data.get('head') is True]
        if got != [exp]:
            bad('wrong-head', 'children of %s with edges %r: head index %r, expected %d'
                % (x.data['label'], [c.data['edge'] for c in ks], got, exp))
    if order is None and not out:
        # the marking as the user sees it: discobrackets output with `gf mark_heads_marking` (LABEL-GF')
        import io
        import copy
        from trees import treeoutput
        from .. import codecs
        try:
            stream = io.StringIO()
            wopts = cli_options({'gf': True, 'mark_heads_marking': True})
            treeoutput.discobrackets(copy.deepcopy(r), stream, **wopts)
            groot = codecs.decode_discobrackets(stream.getvalue())[0][0]

            def expect(nd, is_head):
                if isinstance(nd, int):
                    return nd
                ks = sorted(nd[2], key=lambda k: k if isinstance(k, int) else model.leaves(k)[0])
                edges = [mt.toks[k - 1]['edge'] if isinstance(k, int) else k[1] for k in ks]
                h = refs.negra_head_index(edges)
                lab = nd[0] + ('-' + nd[1] if nd[1] and not nd[1].startswith('-') else '') + ("'" if is_head else '')
                return (lab, None, tuple(expect(k, i == h) for i, k in enumerate(ks)))

            def strip(nd):
                return nd if isinstance(nd, int) else (nd[0], None, tuple(strip(k) for k in model.canon_mt(nd)[2]))
            want = strip(expect(mt.root, False))
            if strip(groot) != want:
                bad('written-marking', 'discobrackets output with gf + mark_heads_marking shows %s, expected %s'
                    % (model.mt_str(strip(groot)), model.mt_str(want)))
        except Exception as e:
            bad('exception', 'writing with gf + mark_heads_marking: %s: %s' % (type(e).__name__, e))
    return out, nontriv


def rule_tree(parent_label, child_labels, as_tokens):
    n = len(child_labels)
    if as_tokens:
        root = ('VROOT', '--', ((parent_label, '--', tuple(range(1, n + 1))),))
        toks = model.mk_tokens(n, pos=child_labels)
    else:
        kids = tuple((lab, '--', (i + 1,)) for i, lab in enumerate(child_labels))
        root = ('VROOT', '--', ((parent_label, '--', kids),))
        toks = model.mk_tokens(n)
    return model.MT(1, toks, root)


def check_rule(c):
    out = []
    mt = rule_tree(c['parent'], c['children'], c['tokens'])

    def bad(kind, detail):
        out.append({'kind': kind, 'where': 'mark_heads_by_rules', 'case': {'rule': c},
                    'detail': '%s [preset %s, %s -> %s, listed child at %d%s]'
                              % (detail, c['preset'], c['parent'], ' '.join(c['children']), c['pos'],
                                 ', tree read from bracketed text with gf_split' if c.get('via') else ''),
                    'what': 'mark_heads_by_rules: ' + kind})
    try:
        if c.get('pos', 0) % 2 == 1:
            from ..bridge import reader_history
            reader_history()        # another corpus was read with gf_separator '#' earlier in the process
        # collision forcing: the same labels are first marked under the OTHER preset (result discarded)
        transform.mark_heads_by_rules(build(mt), mark_heads_preset='ptb' if c['preset'] == 'negra' else 'negra')
        if c.get('pos', 0) % 2 == 0:
            # ... or, on every other case: under the SAME preset, then a call that is rejected (unknown preset) -
            # a failed call in the middle of a history must leave nothing behind
            transform.mark_heads_by_rules(build(mt), mark_heads_preset=c['preset'])
            try:
                transform.mark_heads_by_rules(build(mt), mark_heads_preset='no-such-preset')
            except Exception:
                pass
        if c.get('via') == 'brackets':
            # as PTB users get their trees: bracketed text read with gf_split
            t = build_via_brackets(mt, scratch(), **cli_options({'gf_split': True}))
        else:
            t = build(mt)
        r = transform.mark_heads_by_rules(t, mark_heads_preset=c['preset'])
    except Exception as e:
        bad('exception', '%s: %s' % (type(e).__name__, e))
        return out
    probs = monitor(r, mt.n())
    if r is not t:
        probs.append('returned a different node')
    if probs:
        bad('ill-formed', '; '.join(probs))
        return out
    one_head_invariant(r, bad)
    p = r.children[0]
    ks = sorted(p.children, key=lambda x: min(l.data['num'] for l in raw_leaves(x)))
    got = [i for i, x in enumerate(ks) if x.data.get('head') is True]
    if got != [c['pos']]:
        bad('wrong-head', 'head index %r, expected %d (the only listed child)' % (got, c['pos']))
    return out


def rule_cases(lo, hi, maxlen):
    items = rule_items()[lo:hi]
    for preset, parent, child, listed in items:
        unlisted = ['zzz', 'qqq']
        for L in range(1, maxlen + 1):
            for pos in range(L):
                for di, dec in enumerate(DECOR):
                    for as_tokens in (True, False):
                        labs = [dec(unlisted[i % 2]) for i in range(L)]
                        labs[pos] = dec(child)
                        pl = DECOR[(di + 1) % len(DECOR)](parent) if parent != '-' else parent
                        yield {'preset': preset, 'parent': pl, 'children': labs, 'pos': pos,
                               'tokens': as_tokens}
                        if "'" not in pl + ''.join(labs):
                            yield {'preset': preset, 'parent': pl, 'children': labs, 'pos': pos,
                                   'tokens': as_tokens, 'via': 'brackets'}


def wide_rule_cases(lo, hi):
    """Size probes beyond the bound: the listed child among 5, 6 and 9 children (first, middle, last)."""
    for preset, parent, child, listed in rule_items()[lo:hi]:
        for L in (5, 6, 9):
            for pos in sorted(set((0, L // 2, L - 1))):
                for as_tokens in (True, False):
                    labs = [['zzz', 'qqq'][i % 2].upper() for i in range(L)]
                    labs[pos] = child.upper()
                    yield {'preset': preset, 'parent': parent.upper() if parent != '-' else parent, 'children': labs,
                           'pos': pos, 'tokens': as_tokens}


# the tag sets of the two treebanks the presets are written for (pinned here; many tags extend another one: NN/NNP/NNS,
# VB/VBN, IN/INTJ, S/SBAR/SBARQ/SINV/SQ, CARD/CAR..., PRP/PRP$)
PTB_TAGS = ('CC CD DT EX FW IN JJ JJR JJS LS MD NN NNS NNP NNPS PDT POS PRP PRP$ RB RBR RBS RP SYM TO UH VB VBD VBG VBN '
            'VBP VBZ WDT WP WP$ WRB HYPH NFP ADD AFX ADJP ADVP CONJP FRAG INTJ LST NAC NP NX PP PRN PRT QP RRC UCP VP WHADJP '
            'WHADVP WHNP WHPP X S SBAR SBARQ SINV SQ').split()
STTS_TAGS = ('ADJA ADJD ADV APPR APPRART APPO APZR ART CARD FM ITJ KOUI KOUS KON KOKOM NN NE PDS PDAT PIS PIAT PIDAT PPER '
             'PPOSS PPOSAT PRELS PRELAT PRF PWS PWAT PWAV PAV PTKZU PTKNEG PTKVZ PTKANT PTKA TRUNC VVFIN VVIMP VVINF VVIZU '
             'VVPP VAFIN VAIMP VAINF VAPP VMFIN VMINF VMPP XY AA AP AVP CAC CAP CAVP CCP CH CNP CO CPP CS CVP CVZ DL ISU MTA '
             'NM NP PN PP QL S VP VZ').split()


def vocab_filler_cases(lo, hi):
    """The listed child next to ONE unlisted sister taken from the tag set of the treebank and from the table's own
    vocabulary (categories that extend, or are extended by, a listed one: NNP next to nn, SBAR next to s), on both sides."""
    for preset, parent, child, listed in rule_items()[lo:hi]:
        table = headrules.HEAD_RULES_PTB if preset == 'ptb' else headrules.HEAD_RULES_NEGRA
        vocab = set(PTB_TAGS if preset == 'ptb' else STTS_TAGS)
        for par in table:
            vocab.add(par.upper())
            for _, prio in table[par]:
                vocab.update(x.upper() for x in prio.split())
        low = set(x.lower() for x in listed)
        for v in sorted(vocab):
            if v.lower() in low or v == '-' or not v:
                continue
            for pos in (0, 1):
                labs = [v, v]
                labs[pos] = child.upper()
                yield {'preset': preset, 'parent': parent.upper() if parent != '-' else parent, 'children': labs,
                       'pos': pos, 'tokens': True}


def empty_element_cases(lo, hi):
    """Unlisted siblings that are PTB empty elements (-NONE-, *T*-1, *) to the left and right of the listed child."""
    for preset, parent, child, listed in rule_items()[lo:hi]:
        for fillers in (['-NONE-', '-NONE-'], ['*T*-1', '*'], ['-NONE-', '*T*']):
            for pos in (0, 1, 2):
                for as_tokens in (True, False):
                    labs = list(fillers)
                    labs.insert(pos, child.upper())
                    yield {'preset': preset, 'parent': parent.upper() if parent != '-' else parent, 'children': labs,
                           'pos': pos, 'tokens': as_tokens}


def anyparent_cases(maxlen):
    """Every parent category of both pinned tables (incl. those with an empty priority list) and an unknown
    one, over children none of which is listed: the rule does not say which child is the head, but exactly
    one child must be marked."""
    for preset, table in (('negra', headrules.HEAD_RULES_NEGRA), ('ptb', headrules.HEAD_RULES_PTB)):
        for parent in sorted(table) + ['xyz']:
            for L in range(1, maxlen + 1):
                for as_tokens in (True, False):
                    yield {'preset': preset, 'parent': parent.upper(), 'children': ['zzz', 'qqq', 'zzz', 'qqq'][:L],
                           'tokens': as_tokens}


def check_anyparent(c):
    out = []
    mt = rule_tree(c['parent'], c['children'], c['tokens'])

    def bad(kind, detail):
        out.append({'kind': kind, 'where': 'mark_heads_by_rules', 'case': {'anyparent': c},
                    'detail': '%s [preset %s, %s -> %s, no listed child]' % (detail, c['preset'], c['parent'], ' '.join(c['children'])),
                    'what': 'mark_heads_by_rules: ' + kind})
    try:
        t = build(mt)
        r = transform.mark_heads_by_rules(t, mark_heads_preset=c['preset'])
        probs = monitor(r, mt.n())
        if probs:
            bad('ill-formed', '; '.join(probs))
        else:
            one_head_invariant(r, bad)
    except Exception as e:
        bad('exception', '%s: %s' % (type(e).__name__, e))
    return out


def check_tables():
    """The repository's tables must still be the pinned ones (category by category)."""
    out = []
    for name, pinned, live in (('HEAD_RULES_PTB', headrules.HEAD_RULES_PTB, transformconst.HEAD_RULES_PTB),
                               ('HEAD_RULES_NEGRA', headrules.HEAD_RULES_NEGRA, transformconst.HEAD_RULES_NEGRA)):
        for parent in sorted(set(pinned) | set(live)):
            a = [(d, p.split()) for d, p in pinned.get(parent, [])]
            b = [(d, p.split()) for d, p in live.get(parent, [])]
            if a != b:
                out.append({'kind': 'rule-table', 'where': 'transformconst.' + name, 'case': {'table': name, 'parent': parent},
                            'detail': 'head rule of %r is %r, the documented rule is %r' % (parent, b, a),
                            'what': 'head-rule table differs from the documented rules'})
    return out


def check_reject():
    out = []
    mt = rule_tree('NP', ['ART', 'NN'], True)
    unknown = ['tiger2', '', 'neg', 'negr', 'egra', 'a', 'pt', 'tb', 'NEGRA', 'Ptb', 'negra ', 'negra,ptb', 'negra2', 'ptb3']
    for params, label in [({'mark_heads_preset': u}, 'unknown preset %r' % u) for u in unknown] + \
                         [({}, 'neither preset nor rule file'),
                          ({'mark_heads_preset': 'negra', 'mark_heads_rulefile': 'x'}, 'both preset and rule file')]:
        try:
            transform.mark_heads_by_rules(build(mt), **params)
            out.append({'kind': 'not-rejected', 'where': 'mark_heads_by_rules', 'case': {'reject': label},
                        'detail': '%s is accepted' % label, 'what': 'mark_heads_by_rules accepts ' + label})
        except Exception:
            pass
    return out


def check_case(case):
    if 'clipipe' in case:
        from .. import clipipe
        return clipipe.replay(case)
    with quiet():
        if 'negra' in case:
            return check_negra(case['negra'], case.get('order'))[0]
        if 'rule' in case:
            return check_rule(case['rule'])
        if 'anyparent' in case:
            return check_anyparent(case['anyparent'])
        if 'table' in case:
            return check_tables()
        return check_reject()


def edge_assignments(sh):
    """Every assignment of EDGES to all non-root nodes and leaves."""
    n = len(model.leaves(sh))
    slots = [p for p in model.wrap_positions(sh) if p != ()]
    for combo in itertools.product(EDGES, repeat=len(slots)):
        amap = dict(zip(slots, combo))
        tok_edges = [None] * n

        def rec(s, path):
            if isinstance(s, int):
                tok_edges[s - 1] = amap[path]
                return s
            lab = 'VROOT' if path == () else 'N' + ''.join(map(str, path))
            return (lab, amap.get(path, '--'), tuple(rec(k, path + (i,)) for i, k in enumerate(s)))
        root = rec(sh, ())
        yield model.MT(1, model.mk_tokens(n, edge=tok_edges), root)


def run_chunk(chunk):
    if chunk.get('kind') == 'clipipe':
        from .. import clipipe
        res = Result()
        clipipe.run_property(ID, res)
        return res
    res = Result()
    with quiet():
        if chunk['kind'] == 'negra':
            for sh, k in sweep.iter_shapes(chunk):
                for mt in edge_assignments(sh):
                    vs, nontriv = check_negra(mt.to_json(), (None, 'rev', 'export', 'written')[res.evals % 4])
                    res.evals += 1
                    res.nontrivial += 1 if nontriv else 0
                    res.outcome((model.mt_str(mt.root, mt.toks), len(vs)))
                    for v in vs:
                        res.violation(v['kind'], v['where'], v['case'], v['detail'], v['what'])
                res.sample({'negra_mark_heads_on': model.mt_str(mt.root, mt.toks)})
        elif chunk['kind'] == 'rules':
            c = None
            for c in itertools.chain(rule_cases(chunk['lo'], chunk['hi'], chunk['maxlen']), wide_rule_cases(chunk['lo'], chunk['hi']),
                                     empty_element_cases(chunk['lo'], chunk['hi']), vocab_filler_cases(chunk['lo'], chunk['hi'])):
                vs = check_rule(c)
                res.evals += 1
                res.nontrivial += 1 if c['pos'] != 0 else 0
                res.outcome((repr(c), len(vs)))
                for v in vs:
                    res.violation(v['kind'], v['where'], v['case'], v['detail'], v['what'])
            if c:
                res.sample({'mark_heads_by_rules': c})
        elif chunk['kind'] == 'anyparent':
            c = None
            for c in anyparent_cases(chunk['maxlen']):
                vs = check_anyparent(c)
                res.evals += 1
                res.nontrivial += 1
                res.outcome((repr(c), len(vs)))
                for v in vs:
                    res.violation(v['kind'], v['where'], v['case'], v['detail'], v['what'])
            for v in check_tables():
                res.violation(v['kind'], v['where'], v['case'], v['detail'], v['what'])
            res.sample({'one_head_invariant_on': c})
        else:
            vs = check_reject()
            res.evals += 3
            for v in vs:
                res.violation(v['kind'], v['where'], v['case'], v['detail'], v['what'])
    return res


# --- non-initial states: the oracle of this property in every state of the live-state pool
# (vt/livepool.py: BFS over live objects; vt/liveoracles.py: the oracles)
from .. import liveoracles as _lo
_plan0, _run_chunk0, _check_case0 = plan, run_chunk, check_case


def plan(tier, seed):
    p = _plan0(tier, seed)
    p['chunks'] = list(p['chunks']) + _lo.plan_chunks(tier)
    p['assumptions'] = list(p.get('assumptions', [])) + [_lo.assumption()]
    return p


def run_chunk(chunk):
    if chunk.get('kind') == 'live':
        return _lo.run_chunk(ID, chunk, Result())
    return _run_chunk0(chunk)


def check_case(case):
    if isinstance(case, dict) and isinstance(case.get('live'), dict):
        return _lo.replay(case)
    return _check_case0(case)
