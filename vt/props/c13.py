"""C13 Punctuation re-attachment puts punctuation where documented, moves nothing else."""
import itertools
from .. import model, sweep
from ..runner import Result
from ..bridge import build, quiet, all_nodes, raw_leaves, extract, compare_written, build_any

from trees import transform

ID = 'C13'
LEVEL = 'exploration'
TECHNIQUE = 'bounded exhaustive enumeration of shapes x punctuation assignments x parameters, final-state predicates + frame condition'

WORDS = ['w', ',', '"', '(']
PAIR = {'"', "'", "''", '`', '``', '(', ')', '[', ']', '{', '}', '-LRB-', '-RRB-', '-LSB-', '-RSB-', '-LCB-', '-RCB-'}
PUNCT = PAIR | {'.', ',', ';', '?', '!', '--', ':', '-', '/', '...'}


def plan(tier, seed):
    if tier == 'quick':
        specs = [(1, 1, 9), (2, 1, 9), (3, 1, 9), (4, 1, 9), (5, 0, 3)]
    else:
        specs = [(1, 2, 9), (2, 2, 9), (3, 2, 9), (4, 2, 9), (5, 1, 9), (6, 0, 3)]
    chunks = [{'kind': 'inventory'}]
    for n, u, maxp in specs:
        chunks += sweep.shape_chunks([(n, u)], per_chunk=12, maxp=maxp)
    return {
        'chunks': chunks + [{'kind': 'clipipe'}],
        'rule': 'every hierarchy over n tokens (<= u unary insertions) x every assignment of words from %r with at '
                'most p punctuation tokens x {punctuation_verylow, punctuation_root, punctuation_symetrify, '
                'punctuation_symetrify with relc = the POS of each token}. non-trivial = distinct cases in which '
                'at least one token changed its parent' % WORDS,
        'bound': ', '.join('n=%d:u<=%d:p<=%d' % s for s in specs),
        'exhaustive': True,
        'assumptions': ['driver differential (vt/clipipe.py): `treetools transform` with the pipelines that involve this operation, with and without --split, on a six-sentence corpus must write what the named functions give when applied by the harness in the given order',
                        'punctuation inventories as listed in trees.PUNCT / PAIRPUNCT (copied into the harness)',
                        'well-formedness of the result is C04\'s business; C13 compares parents by object identity'],
    }


def word_assignments(n, maxp):
    for combo in itertools.product(WORDS, repeat=n):
        if sum(1 for w in combo if w != 'w') <= maxp:
            yield list(combo)


def is_tok(x):
    return not x.children and isinstance(x.data.get('word'), str) and 'num' in x.data


def check_one(mtj, op, relc, order=None, pre=None):
    """pre: None | 'binarize' (the tree is head-marked and binarized first: @-nodes are constituents, not
    punctuation, whatever their data says)."""
    mt = model.MT.from_json(mtj)
    case = {'mt': mtj, 'op': op, 'relc': relc, 'order': order, 'pre': pre}
    out = []

    def bad(kind, detail):
        out.append({'kind': kind, 'where': op, 'case': case,
                    'detail': '%s [input %s, relc=%r%s]' % (detail, model.mt_str(mt.root, mt.toks), relc,
                                                          (', after negra_mark_heads + binarize' if pre == 'binarize' else ', after add_topnode' if pre else '')),
                    'what': '%s: %s' % (op, kind)})
    t = build_any(mt, order)
    if pre == 'binarize':
        try:
            t = transform.binarize(transform.negra_mark_heads(t))
        except Exception as e:
            bad('exception', 'negra_mark_heads + binarize before %s: %s: %s' % (op, type(e).__name__, e))
            return out, 0
    elif pre == 'add_topnode':
        t = transform.add_topnode(t)        # the root is now a TOP node with one child
    nodes = all_nodes(t)
    before = {id(x): x.parent for x in nodes}
    toks = sorted(raw_leaves(t), key=lambda x: x.data['num'])
    params = {} if relc is None else {'relc': relc}
    try:
        r = getattr(transform, op)(t, **params)
    except Exception as e:
        bad('exception', '%s: %s' % (type(e).__name__, e))
        return out, 0
    if r is not t:
        bad('returned-other', 'returned a different node than the root')
    after_ids = set(id(x) for x in all_nodes(t))
    if after_ids != set(before):
        bad('frame', 'the tree gained %d and lost %d nodes (nodes of another tree attached, or nodes detached)'
            % (len(after_ids - set(before)), len(set(before) - after_ids)))
    moved = [x for x in nodes if x.parent is not before[id(x)]]
    # tokens and their order untouched
    now = [(x.data.get('word'), x.data.get('label'), x.data.get('num')) for x in toks]
    exp = [(tk['word'], tk['pos'], i + 1) for i, tk in enumerate(mt.toks)]
    if now != exp:
        bad('tokens-changed', 'tokens are now %r' % now)
    # links consistent for moved nodes
    for x in moved:
        if x.parent is None or sum(1 for c in x.parent.children if c is x) != 1:
            bad('dangling-move', 'moved token %r is not exactly once in its new parent\'s child list' % x.data['word'])
        if any(c is x for c in before[id(x)].children):
            bad('dangling-move', 'moved token %r is still in its old parent\'s child list' % x.data['word'])
    allowed = PAIR if op == 'punctuation_symetrify' else PUNCT
    for x in moved:
        if not (is_tok(x) and x.data['word'] in allowed):
            what = x.data.get('word') if is_tok(x) else x.data.get('label')
            bad('frame', 'node %r changed its parent (%s -> %s)'
                % (what, before[id(x)].data['label'], x.parent.data['label'] if x.parent else None))
    if op == 'punctuation_verylow':
        if toks and toks[0] in moved:
            bad('frame', 'the sentence-initial token %r has no left neighbour but changed its parent (%s -> %s)'
                % (toks[0].data['word'], before[id(toks[0])].data['label'], toks[0].parent.data['label']))
        for i in range(1, len(toks)):
            x = toks[i]
            if x.data['word'] in PUNCT and x.parent is not None:
                same = x.parent is toks[i - 1].parent
                allp = all(is_tok(c) and c.data['word'] in PUNCT for c in x.parent.children)
                if not same and not allp:
                    bad('verylow-placement', 'punctuation token %d (%r) is neither a sister of token %d nor in a '
                        'punctuation-only constituent (parent %s)' % (i + 1, x.data['word'], i, x.parent.data['label']))
    elif op == 'punctuation_root':
        for x in toks:
            if x.data['word'] in PUNCT and x.parent is not None:
                if x.parent is not t and len(x.parent.children) != 1:
                    bad('root-placement', 'punctuation token %d (%r) is below %s which has %d children'
                        % (x.data['num'], x.data['word'], x.parent.data['label'], len(x.parent.children)))
    else:
        for x in moved:
            if not is_tok(x) or x.parent is None:
                continue
            okay = False
            for c in x.parent.children:
                if c is x or not is_tok(c):
                    continue
                if c.data['word'] in PAIR:
                    okay = True
                i = c.data['num']
                if relc is not None and i < len(toks) and toks[i].data['label'] == relc:
                    okay = True
            if not okay:
                bad('symetrify-placement', 'token %d (%r) was moved into %s which contains no other paired punctuation%s'
                    % (x.data['num'], x.data['word'], x.parent.data['label'],
                       '' if relc is None else ' and no token preceding a %s' % relc))
    if moved and order in (None, 'export') and not out:
        # the token order and structure as the user gets them from the writers
        try:
            shown = extract(t)
            probs = compare_written(t, shown, model.mt_tree_gap_degree(shown.root) == 0,
                                    fmts=('brackets', 'discobrackets'))
        except Exception as e:
            probs = ['%s: %s' % (type(e).__name__, e)]
        if probs:
            bad('written', '; '.join(probs))
    return out, len(moved)


def ops_for(n):
    ops = [('punctuation_verylow', None), ('punctuation_root', None), ('punctuation_symetrify', None)]
    for j in range(2, n + 1):
        ops.append(('punctuation_symetrify', 'P%d' % j))
    if n >= 2:
        ops.append(('punctuation_symetrify', 'P2$'))      # a label no token carries, but P2 is a part of it
    return ops


INVENTORY_SHAPES = [((1, 2), 3), ((1, (2, 3)), 4), (1, (2, 3)), (((1, 2), 3, 4),), ((1, 2, 3), (4, 5))]


def inventory_cases():
    """Every symbol of the punctuation inventories at every position of a few fixed shapes."""
    for sym in sorted(PUNCT):
        for sh in INVENTORY_SHAPES:
            n = len(model.leaves(sh))
            root = model.decorate(sh, lambda p, s: 'N' + ''.join(map(str, p)))
            for pos in range(n):
                for other in ('w', '"'):
                    ws = ['w'] * n
                    ws[pos] = sym
                    if other != 'w' and n > 2:
                        ws[(pos + 2) % n] = other
                    yield model.MT(1, model.mk_tokens(n, words=ws), root)


def check_case(case):
    if 'clipipe' in case:
        from .. import clipipe
        return clipipe.replay(case)
    with quiet():
        return check_one(case['mt'], case['op'], case['relc'], case.get('order'), case.get('pre'))[0]


def run_chunk(chunk):
    if chunk.get('kind') == 'clipipe':
        from .. import clipipe
        res = Result()
        clipipe.run_property(ID, res)
        return res
    res = Result()
    if chunk.get('kind') == 'inventory':
        with quiet():
            last = None
            for mt in inventory_cases():
                j = mt.to_json()
                for op, relc in ops_for(mt.n())[:4]:
                    vs, nmoved = check_one(j, op, relc, None)
                    res.evals += 1
                    res.nontrivial += 1 if nmoved else 0
                    res.outcome((mt.key(), op, relc, nmoved, len(vs)))
                    for v in vs:
                        res.violation(v['kind'], v['where'], v['case'], v['detail'], v['what'])
                    last = {'tree': model.mt_str(mt.root, mt.toks), 'op': op}
            res.sample(last)
        return res
    with quiet():
        n = chunk['n']
        words = list(word_assignments(n, chunk['maxp']))
        if chunk['maxp'] < n:
            # beyond the bound on punctuation tokens: sentences that consist of paired punctuation only
            words += [['"'] * n, ['('] * n, [['"', '('][i % 2] for i in range(n)], ['"'] * (n - 1) + ['w']]
        idx = 0
        for sh, k in sweep.iter_shapes(chunk):
            root = model.decorate(sh, lambda p, s: 'N' + ''.join(map(str, p)))
            last = None
            for ws in words:
                mt = model.MT(1, model.mk_tokens(n, words=ws), root)
                j = mt.to_json()
                for op, relc in ops_for(n):
                    idx += 1
                    order = (None, 'rev', 'export', 'written')[idx % 4]
                    jj = j
                    if relc is None and order == 'rev' and idx % 2 and n >= 2:
                        # a token without a tag (TIGER <t> without pos attribute): no option value may match it
                        nt = [dict(tk) for tk in mt.toks]
                        nt[n // 2]['pos'] = None
                        jj = model.MT(1, nt, root).to_json()
                    vs, nmoved = check_one(jj, op, relc, order,
                                           'binarize' if (idx % 4 == 0 and model.max_arity_of(sh) > 2) else
                                           'add_topnode' if idx % 4 == 1 else None)
                    res.evals += 1
                    if nmoved:
                        res.nontrivial += 1
                        last = {'tree': model.mt_str(mt.root, mt.toks), 'op': op, 'relc': relc, 'moved': nmoved}
                    res.outcome((model.shape_str(sh), tuple(ws), op, relc, nmoved, len(vs)))
                    for v in vs:
                        res.violation(v['kind'], v['where'], v['case'], v['detail'], v['what'])
            if last:
                res.sample(last)
    return res


# --- non-initial states: the oracle of this property in every state of the live-state pool
# (vt/livepool.py: BFS over live objects; vt/liveoracles.py: the oracles)
from .. import liveoracles as _lo
_plan0, _run_chunk0, _check_case0 = plan, run_chunk, check_case


def plan(tier, seed):
    p = _plan0(tier, seed)
    p['chunks'] = list(p['chunks']) + _lo.plan_chunks(tier)
    p['assumptions'] = list(p.get('assumptions', [])) + [_lo.assumption()]
    return p


def run_chunk(chunk):
    if chunk.get('kind') == 'live':
        return _lo.run_chunk(ID, chunk, Result())
    return _run_chunk0(chunk)


def check_case(case):
    if isinstance(case, dict) and isinstance(case.get('live'), dict):
        return _lo.replay(case)
    return _check_case0(case)
