"""C14 Tree binarization and unary-chain collapsing are reversible normal forms."""
import re
from .. import model, sweep
from ..runner import Result
from ..bridge import T, build, quiet, monitor, extract, mt_equal, all_nodes, build_any
from .c05 import assign_heads, head_choices

from trees import transform

ID = 'C14'
LEVEL = 'exploration'
TECHNIQUE = 'bounded exhaustive enumeration of head-marked shapes / unary-chain placements, reference un-binarizer and reference collapser'


def plan(tier, seed):
    bspecs = [(2, 1), (3, 1), (4, 1), (5, 0), (6, 0)] if tier == 'quick' else [(2, 2), (3, 2), (4, 2), (5, 1), (6, 1), (7, 0)]
    cspecs = [(1, 4), (2, 4), (3, 3), (4, 2)] if tier == 'quick' else [(1, 5), (2, 5), (3, 4), (4, 3), (5, 2)]
    chunks = sweep.shape_chunks(bspecs, per_chunk=24, big=True, kind='bin')
    chunks += sweep.shape_chunks(cspecs, per_chunk=30, big=True, kind='col')
    cn, cu = (4, 2) if tier == 'quick' else (5, 2)
    total = sum(1 for m in range(1, cn + 1) for _ in model.shapes_with_unary(m, cu, continuous=True))
    chunks += [{'kind': 'cli', 'n': cn, 'u': cu, 'lo': lo, 'hi': min(total, lo + 150)} for lo in range(0, total, 150)]
    return {
        'chunks': chunks + [{'kind': 'clipipe'}],
        'rule': 'binarize: every hierarchy over n tokens (arity up to n, discontinuous included, <= u unary) x '
                'every head assignment x bare_bin_labels on/off x plain/co-indexed labels, un-binarized by the '
                'reference; unmarked trees must be rejected iff some node has > 2 children. collapse: every '
                'hierarchy with <= u unary insertions at every position (chains up to u+1 labels at the root, in '
                'the middle, above tokens), collapse compared with the reference, uncollapse must return the root '
                'of the original tree; the same three programs (collapse, uncollapse of the reference-collapsed trees, collapse+uncollapse) through `treetools transform` on bracketed corpora of every continuous hierarchy up to n = %d with <= 2 unary nodes. non-trivial = distinct cases with a node of arity > 2 (bin) / a unary '
                'node (col)' % (4 if tier == 'quick' else 5),
        'bound': 'bin: ' + ', '.join('n=%d:u<=%d' % s for s in bspecs) + '; col: ' + ', '.join('n=%d:u<=%d' % s for s in cspecs),
        'exhaustive': True,
        'assumptions': ['driver differential (vt/clipipe.py): `treetools transform` with the pipelines that involve this operation, with and without --split, on a six-sentence corpus must write what the named functions give when applied by the harness in the given order',
                        'labels contain no + and do not start with @',
                        '"no head mark" = children carry no head key at all (DESIGN D2)'],
    }


def strip_coindex(label):
    head = "'" if label.endswith("'") else ''
    core = label[:-1] if head else label
    m = re.fullmatch(r'(.*)-[0-9]+', core, re.S)
    if m:
        core = m.group(1)
    return core + head


def unbinarize(nd, expect_label, problems, parent_label=None):
    """Splice @-nodes away; record wrong @-labels."""
    if isinstance(nd, int):
        return [nd]
    if nd[0].startswith('@'):
        if nd[0] != expect_label(parent_label):
            problems.append('@-node labelled %r below %r, expected %r' % (nd[0], parent_label, expect_label(parent_label)))
        out = []
        for k in nd[2]:
            out.extend(unbinarize(k, expect_label, problems, parent_label))
        return out
    kids = []
    for k in nd[2]:
        kids.extend(unbinarize(k, expect_label, problems, nd[0]))
    return [(nd[0], nd[1], tuple(kids))]


def with_coindex(mt, function=False):
    """function=True: PTB style, function and co-index (NP-SBJ-3, S-TPC=2-12); function='marked': co-index followed by
    the head marker (NP-3'), as the readers deliver labels of a file written with mark_heads_marking."""
    def rec(nd, path):
        if isinstance(nd, int):
            return nd
        lab = nd[0] if path == () else nd[0] + (['-SBJ', '-TPC=2'][len(path) % 2] if function is True else '') \
            + '-%d' % (len(path) + (2 if sum(path) % 2 else 11)) + ("'" if function == 'marked' else '')
        return (lab, nd[1], tuple(rec(k, path + (i,)) for i, k in enumerate(nd[2])))
    return model.MT(mt.sid, mt.toks, rec(mt.root, ()))


def failed_binarize():
    """A failed call is part of the history: binarize with bare labels on a tree without head marks is rejected;
    nothing of it may show in the next call."""
    victim = build(model.MT(1, model.mk_tokens(3), ('VROOT', '--', (('S', '--', (1, 2, 3)),))))
    for x in all_nodes(victim):
        x.data.pop('head', None)
    try:
        transform.binarize(victim, bare_bin_labels=True)
    except Exception:
        pass


def check_bin(mtj, bare, marked, order=None):
    if marked and not bare:
        failed_binarize()
    mt = model.MT.from_json(mtj)
    case = {'bin': mtj, 'bare': bare, 'marked': marked, 'order': order}
    out = []

    def bad(kind, detail, what=None):
        out.append({'kind': kind, 'where': 'binarize', 'case': case,
                    'detail': '%s [input %s, bare=%s, heads marked=%s]' % (detail, model.mt_str(mt.root, mt.toks), bare, marked),
                    'what': what or ('binarize: ' + kind)})
    arities = [len(nd[2]) for nd in model.mt_all(mt.root) if not isinstance(nd, int)]
    params = {'bare_bin_labels': True} if bare else {}
    t = build_any(mt, order)
    try:
        if marked:
            t = transform.negra_mark_heads(t)
        r = transform.binarize(t, **params)
    except ValueError as e:
        if not marked and max(arities) > 2:
            return out
        bad('exception', 'ValueError: %s' % e)
        return out
    except Exception as e:
        bad('exception', '%s: %s' % (type(e).__name__, e))
        return out
    if not marked and max(arities) > 2:
        bad('not-rejected', 'a node with %d children and no head marks was binarized' % max(arities),
            'binarize accepts a node with > 2 children without head marks')
        return out
    probs = monitor(r, mt.n())
    if r is not t:
        probs.append('returned a different node')
    if probs:
        bad('ill-formed', '; '.join(probs))
        return out
    for x in all_nodes(r):
        if len(x.children) > 2:
            bad('arity', 'node %s has %d children after binarization' % (x.data['label'], len(x.children)))
    got = extract(r)
    problems = []
    exp_label = (lambda pl: '@') if bare else (lambda pl: '@' + strip_coindex(pl))
    back = unbinarize(got.root, exp_label, problems)
    for p in problems:
        bad('bin-label', p)
    n_at = sum(1 for nd in model.mt_all(got.root) if not isinstance(nd, int) and nd[0].startswith('@'))
    if n_at != sum(max(0, a - 2) for a in arities):
        bad('bin-count', '%d @-nodes added, expected %d' % (n_at, sum(max(0, a - 2) for a in arities)))
    if len(back) != 1:
        bad('unbinarize', 'root is an @-node')
        return out
    d = mt_equal(mt, model.MT(got.sid, got.toks, back[0]), tok_fields=('word', 'pos', 'edge', 'lemma', 'morph'),
                 edges=True, sid=True)
    if d:
        bad('unbinarize', 'removing the @-nodes does not restore the original: ' + d)
    return out


def ref_collapse(mt):
    """Returns (new root or ('TOKEN', pos) for a fully collapsed one-token tree, new pos list)."""
    pos = [t['pos'] for t in mt.toks]

    def rec(nd):
        if isinstance(nd, int):
            return nd
        label, cur = nd[0], nd
        while len(cur[2]) == 1:
            k = cur[2][0]
            if isinstance(k, int):
                pos[k - 1] = label + '+' + pos[k - 1]
                return k
            label += '+' + k[0]
            cur = k
        return (label, nd[1], tuple(rec(k) for k in cur[2]))
    return rec(mt.root), pos


def check_col(mtj, order=None):
    mt = model.MT.from_json(mtj)
    case = {'col': mtj, 'order': order}
    out = []

    def bad(kind, where, detail, what=None):
        out.append({'kind': kind, 'where': where, 'case': case,
                    'detail': '%s [input %s]' % (detail, model.mt_str(mt.root, mt.toks)),
                    'what': what or (where + ': ' + kind)})
    t = build_any(mt, order)
    try:
        r = transform.collapse_unary_chains(t)
    except Exception as e:
        bad('exception', 'collapse_unary_chains', '%s: %s' % (type(e).__name__, e))
        return out
    probs = monitor(r, mt.n())
    if r is not t:
        probs.append('returned a different node')
    if probs:
        bad('ill-formed', 'collapse_unary_chains', '; '.join(probs))
        return out
    for x in all_nodes(r):
        if len(x.children) == 1:
            bad('unary-left', 'collapse_unary_chains', 'node %s still has exactly one child' % x.data['label'])
    exp_root, exp_pos = ref_collapse(mt)
    if isinstance(exp_root, int):
        ok = (not r.children and r.data.get('num') == 1 and r.data.get('word') == mt.toks[0]['word']
              and r.data.get('label') == exp_pos[0])
        if not ok:
            bad('collapse-mismatch', 'collapse_unary_chains', 'expected the single token %s/%s, got %r'
                % (mt.toks[0]['word'], exp_pos[0], {k: r.data.get(k) for k in ('label', 'word', 'num')}))
    else:
        got = extract(r)
        exp = model.MT(mt.sid, [dict(tk, pos=p) for tk, p in zip(mt.toks, exp_pos)], exp_root)
        d = mt_equal(exp, got, tok_fields=('word', 'pos'), edges=False, sid=True)
        if d:
            bad('collapse-mismatch', 'collapse_unary_chains', d)
    if out:
        return out
    try:
        u = transform.uncollapse_unary_chains(r)
    except Exception as e:
        bad('exception', 'uncollapse_unary_chains', '%s: %s' % (type(e).__name__, e))
        return out
    probs = monitor(u, mt.n())
    if probs:
        bad('ill-formed', 'uncollapse_unary_chains', '; '.join(probs),
            'uncollapse_unary_chains does not return the root of a well-formed tree')
        return out
    got = extract(u)
    d = mt_equal(mt, got, tok_fields=('word', 'pos'), edges=False, sid=False)
    if d:
        bad('uncollapse-mismatch', 'uncollapse_unary_chains', d,
            'uncollapse(collapse(t)) differs from t')
    return out


def check_cli(n, u, lo, hi):
    """Collapsing / uncollapsing through `treetools transform` on bracketed corpora holding every continuous
    hierarchy over <= n tokens with <= u unary nodes (slice lo:hi), chains at the root included."""
    import os
    from .. import codecs, cli
    from ..runner import scratch
    mts = []
    for m in range(1, n + 1):
        for sh, k in model.shapes_with_unary(m, u, continuous=True):
            mts.append(model.simple_mt(sh, sid=len(mts) + 1, labels='path'))
    mts = mts[lo:hi]
    for i, mt in enumerate(mts):
        mt.sid = i + 1
    case = {'cli': True, 'n': n, 'u': u, 'lo': lo, 'hi': hi}
    out = []

    def bad(kind, program, detail):
        out.append({'kind': kind, 'where': 'transform --trans ' + ' '.join(program), 'case': case, 'detail': detail,
                    'what': 'collapse/uncollapse through the command line: ' + kind})
    collapsed = []
    for mt in mts:
        r, pos = ref_collapse(mt)
        collapsed.append(None if isinstance(r, int) else
                         model.MT(mt.sid, [dict(tk, pos=p) for tk, p in zip(mt.toks, pos)], r))
    keep = [i for i, c in enumerate(collapsed) if c is not None]
    runs = [(['collapse_unary_chains', 'uncollapse_unary_chains'], mts, mts),
            (['uncollapse_unary_chains'], [collapsed[i] for i in keep], [mts[i] for i in keep]),
            (['collapse_unary_chains'], [mts[i] for i in keep], [collapsed[i] for i in keep])]
    src = os.path.join(scratch(), 'c14.mrg')
    dest = os.path.join(scratch(), 'c14.out')
    for program, source, want in runs:
        if not source:
            continue
        with open(src, 'w', encoding='utf-8') as f:
            f.write(codecs.encode_brackets(source))
        st, so, se, exc = cli.run(['transform', src, dest, '--src-format', 'brackets', '--dest-format', 'brackets',
                                   '--trans'] + program)
        if st != 0:
            bad('cli-failed', program, 'exit status %r %s' % (st, cli.describe(exc)))
            continue
        try:
            got = codecs.decode_brackets(codecs.read_out(dest))
        except codecs.DecodeError as e:
            bad('undecodable', program, str(e))
            continue
        if len(got) != len(want):
            bad('tree-count', program, '%d trees written for %d sentences' % (len(got), len(want)))
            continue
        for w, inp, (groot, gtoks) in zip(want, source, got):
            g = model.MT(None, [dict(x, lemma=None, morph=None, edge=None) for x in gtoks], model.canon_mt(groot))
            d = mt_equal(w, g, tok_fields=('word', 'pos'), edges=False)
            if d:
                bad('cli-mismatch', program, 'input %s: %s' % (model.mt_str(inp.root, inp.toks), d))
    return out, len(mts)


def check_case(case):
    if 'clipipe' in case:
        from .. import clipipe
        return clipipe.replay(case)
    with quiet():
        if case.get('cli'):
            return check_cli(case['n'], case['u'], case['lo'], case['hi'])[0]
        if 'bin' in case:
            return check_bin(case['bin'], case['bare'], case['marked'], case.get('order'))
        return check_col(case['col'], case.get('order'))


def run_chunk(chunk):
    if chunk.get('kind') == 'clipipe':
        from .. import clipipe
        res = Result()
        clipipe.run_property(ID, res)
        return res
    res = Result()
    with quiet():
        idx = 0
        if chunk['kind'] == 'cli':
            vs, cnt = check_cli(chunk['n'], chunk['u'], chunk['lo'], chunk['hi'])
            res.evals += 3 * cnt
            res.nontrivial += 3 * cnt
            res.outcome(('cli', chunk['lo'], len(vs)))
            for v in vs:
                res.violation(v['kind'], v['where'], v['case'], v['detail'], v['what'])
            res.sample({'cli': 'treetools transform SRC DEST --src-format brackets --dest-format brackets --trans '
                               '[collapse_unary_chains] [uncollapse_unary_chains]', 'sentences': cnt})
        elif chunk['kind'] == 'bin':
            for sh, k in sweep.iter_shapes(chunk):
                big = model.max_arity_of(sh) > 2
                first = True
                for choice in head_choices(sh):
                    base = assign_heads(sh, choice)
                    for mt in (base, with_coindex(base), with_coindex(base, True), with_coindex(base, 'marked')):
                        j = mt.to_json()
                        for bare in (False, True):
                            idx += 1
                            vs = check_bin(j, bare, True, (None, 'rev', 'export', 'written')[idx % 4])
                            res.evals += 1
                            res.nontrivial += 1 if big else 0
                            res.outcome((mt.key(), bare, len(vs)))
                            for v in vs:
                                res.violation(v['kind'], v['where'], v['case'], v['detail'], v['what'])
                        if first:
                            vs = check_bin(j, False, False)
                            res.evals += 1
                            res.nontrivial += 1 if big else 0
                            for v in vs:
                                res.violation(v['kind'], v['where'], v['case'], v['detail'], v['what'])
                    first = False
                if big:
                    res.sample({'binarize': model.mt_str(mt.root, mt.toks), 'bare_bin_labels': [False, True]})
        else:
            for sh, k in sweep.iter_shapes(chunk):
              for lab in ('path', 'NP'):
                mt = model.simple_mt(sh, sid=4, labels=lab, pos=(['NP'] * len(model.leaves(sh)) if lab == 'NP' else None))
                for order in (None, 'rev', 'export', 'written') + (('brackets',) if model.is_continuous(sh) else ()):
                    vs = check_col(mt.to_json(), order)
                    res.evals += 1
                    res.nontrivial += 1 if k > 0 or len(sh) == 1 else 0
                    res.outcome((model.shape_str(sh), order, len(vs)))
                    for v in vs:
                        res.violation(v['kind'], v['where'], v['case'], v['detail'], v['what'])
                if k:
                    res.sample({'collapse/uncollapse': model.mt_str(mt.root)})
    return res


# --- non-initial states: the oracle of this property in every state of the live-state pool
# (vt/livepool.py: BFS over live objects; vt/liveoracles.py: the oracles)
from .. import liveoracles as _lo
_plan0, _run_chunk0, _check_case0 = plan, run_chunk, check_case


def plan(tier, seed):
    p = _plan0(tier, seed)
    p['chunks'] = list(p['chunks']) + _lo.plan_chunks(tier)
    p['assumptions'] = list(p.get('assumptions', [])) + [_lo.assumption()]
    return p


def run_chunk(chunk):
    if chunk.get('kind') == 'live':
        return _lo.run_chunk(ID, chunk, Result())
    return _run_chunk0(chunk)


def check_case(case):
    if isinstance(case, dict) and isinstance(case.get('live'), dict):
        return _lo.replay(case)
    return _check_case0(case)
