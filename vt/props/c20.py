"""C20 Label parsing and formatting are mutually inverse."""
import itertools
import re
from .. import model
from ..runner import Result
from ..bridge import T, quiet

ID = 'C20'
LEVEL = 'exploration'
TECHNIQUE = 'bounded exhaustive enumeration of label strings x option subsets, round-trip + regex reference oracle'

ATOMS = ['A', 'b', '1', '2', '-', '=', '#', "'", '*', 'EMPTY', 'Empty']
SEPS = [None, '-', '#']


def plan(tier, seed):
    L = 5 if tier == 'quick' else 7
    chunks = [{'kind': 'strings', 'prefix': [], 'maxlen': 2, 'exact': True}]
    for a in ATOMS:
        for b in ATOMS:
            chunks.append({'kind': 'strings', 'prefix': [a, b], 'maxlen': L})
    chunks.append({'kind': 'get_label'})
    chunks += [{'kind': 'pipeline', 'n': n} for n in ((3, 4) if tier == 'quick' else (3, 4, 5))]
    chunks += [{'kind': 'multisep', 'sep': sep, 'maxlen': 4 if tier == 'quick' else 5} for sep in ('--', '::', '-#', '=')]
    chunks += [{'kind': 'reader', 'sep': sep, 'maxlen': 3 if tier == 'quick' else 4} for sep in SEPS]
    return {
        'chunks': chunks + [{'kind': 'clipipe'}],
        'rule': 'every string of <= %d atoms over %r, parsed with gf separator absent/-/#; '
                'formatted with every subset of always_label/always_gf; every single component '
                'emptied; plus get_label on every combination of node kind x edge x flags x all '
                'option subsets; every string of <= %d atoms as a constituent label in bracketed text read with gf_split x the three separators (label and edge must be the parse with the function taken out); the split decorations on every head-marked hierarchy n <= %d after boyd_split and after a second boyd_split on the same objects (reference of C05). non-trivial = distinct strings with at least one separator, '
                'index, marker or default literal' % (L, ATOMS, 3 if tier == 'quick' else 4, 4 if tier == 'quick' else 5),
        'bound': 'strings of <= %d atoms (alphabet of %d atoms)' % (L, len(ATOMS)),
        'exhaustive': True,
        'assumptions': ['driver differential (vt/clipipe.py): `treetools transform` with the pipelines that involve this operation, with and without --split, on a six-sentence corpus must write what the named functions give when applied by the harness in the given order',
                        'labels contain no whitespace'],
    }


def ref_parse(s, sep):
    """Independent reading of the documented label grammar
    LABEL (GF_SEP GF)? (= GAPINDEX)? (- COINDEX)? HEADMARKER?  parsed from the right."""
    head = ''
    if s.endswith("'"):
        head, s = "'", s[:-1]
    co = ''
    m = re.fullmatch(r'(.*)-([0-9]+)', s, re.S)
    if m:
        s, co = m.group(1), m.group(2)
    gap = ''
    m = re.fullmatch(r'(.*)=([0-9]+)', s, re.S)
    if m:
        s, gap = m.group(1), m.group(2)
    gf = ''
    i = s.find(sep)
    if 0 < i < len(s) - 1:
        s, gf = s[:i], s[i + 1:]
    return {'cat': s, 'gf': gf, 'gap': gap, 'co': co, 'head': head}


def ref_format(p, sep, drop=None):
    parts = dict(p)
    if drop:
        parts[drop] = ''
    return (parts['cat'] + (sep + parts['gf'] if parts['gf'] else '')
            + ('=' + parts['gap'] if parts['gap'] else '')
            + ('-' + parts['co'] if parts['co'] else '') + parts['head'])


def check_string(s, sepopt):
    out = []
    sep = sepopt or '-'
    case = {'s': s, 'sep': sepopt}

    def bad(kind, where, detail, what):
        out.append({'kind': kind, 'where': where, 'case': case, 'detail': detail, 'what': what})
    kw = {} if sepopt is None else {'gf_separator': sepopt}
    try:
        lab = T.parse_label(s, **kw)
        ref = ref_parse(s, sep)
        got = {'cat': lab.label, 'gf': lab.gf, 'gap': lab.gapindex, 'co': lab.coindex,
               'head': lab.headmarker}
        exp = dict(ref)
        if exp['cat'] == '':
            exp['cat'] = 'EMPTY'
        if exp['gf'] == '':
            exp['gf'] = '--'
        if got != exp:
            bad('parse-mismatch', 'parse_label',
                'parse_label(%r, sep=%r) = %r, documented grammar gives %r' % (s, sepopt, got, exp),
                'parse_label splits a label differently from the documented grammar')
        exp_trace = len(exp['cat']) > 0 and exp['cat'].startswith('*') and exp['cat'].endswith('*')
        if bool(lab.is_trace) != exp_trace:
            bad('is-trace', 'parse_label', 'is_trace(%r) = %r, expected %r' % (s, lab.is_trace, exp_trace),
                'trace recognition differs from "category wrapped in asterisks"')
        # round trip
        default_cat = got['cat'] == 'EMPTY'
        default_gf = got['gf'] == '--'
        for flags in ((), ('always_label',), ('always_gf',), ('always_label', 'always_gf')):
            f = T.format_label(T.parse_label(s, **kw), **{k: True for k in flags})
            want_cat = ('always_label' in flags) if default_cat else True
            want_gf = ('always_gf' in flags) if default_gf else True
            expf = ((got['cat'] if want_cat else '') + (sep + got['gf'] if want_gf else '')
                    + ('=' + got['gap'] if got['gap'] else '')
                    + ('-' + got['co'] if got['co'] else '') + got['head'])
            if f != expf:
                bad('format-mismatch', 'format_label',
                    'format_label(parse_label(%r), %r) = %r, expected %r' % (s, flags, f, expf),
                    'format_label does not glue the parts as documented')
        # the string itself must come back: without flags unless a default literal is involved
        if not default_cat and not default_gf:
            f = T.format_label(T.parse_label(s, **kw))
            if f != s:
                bad('roundtrip', 'format_label(parse_label)',
                    'format(parse(%r)) = %r' % (s, f), 'format(parse(s)) != s')
        else:
            cands = set()
            for flags in ((), ('always_label',), ('always_gf',), ('always_label', 'always_gf')):
                cands.add(T.format_label(T.parse_label(s, **kw), **{k: True for k in flags}))
            if s not in cands:
                bad('roundtrip', 'format_label(parse_label)',
                    'format(parse(%r)) never gives the string back, even with always_*: %r'
                    % (s, sorted(cands)), 'format(parse(s)) != s')
        # emptying one component removes exactly its substring
        clean = ref['cat'] not in ('', 'EMPTY') and ref['gf'] != '--'
        for comp, attr in (('gf', 'gf'), ('gap', 'gapindex'), ('co', 'coindex'),
                           ('head', 'headmarker'), ('cat', 'label')):
            if not clean or not ref[comp]:
                continue
            for flags in ({}, {'always_label': True}, {'always_gf': True}):
                # an emptied component stays away whatever is asked for the defaults; a missing gf is written
                # as the default only when always_gf asks for it
                if 'always_gf' in flags and (comp != 'gf' and not ref['gf']):
                    continue
                lab2 = T.parse_label(s, **kw)
                setattr(lab2, attr, '')
                f = T.format_label(lab2, **flags)
                expf = ref_format(ref, sep, drop=comp)
                if f != expf:
                    bad('empty-component', 'format_label',
                        'emptying %s of %r and formatting with %r gives %r, expected %r' % (comp, s, sorted(flags), f, expf),
                        'emptying the %s component does not remove exactly that component' % comp)
    except Exception as e:
        bad('exception', 'parse_label/format_label', '%s: %s on %r' % (type(e).__name__, e, s),
            'label function raised')
    return out


class Node(object):
    def __init__(self, data, kids):
        self.data = data
        self.children = kids
        self.parent = None


def get_label_cases():
    opts = ['gf', 'gf_terminals', 'mark_heads_marking', 'boyd_split_marking',
            'boyd_split_numbering']
    for is_cons in (True, False):
        for edge in ('--', 'HD', 'SB', '-', '-X'):
            for head in (True, False):
                for split in (True, False):
                    for r in range(len(opts) + 1):
                        for sub in itertools.combinations(opts, r):
                            for sep in (None, '#', '/'):
                                if sep is not None and 'gf' not in sub:
                                    continue
                                yield {'cons': is_cons, 'edge': edge, 'head': head, 'split': split,
                                       'opts': list(sub), 'sep': sep}


def check_get_label(c):
    out = []
    t = T.Tree(T.make_node_data())
    t.data.update({'label': 'NP', 'edge': c['edge'], 'head': c['head'], 'split': c['split'],
                   'block_number': 2, 'word': None if c['cons'] else 'w', 'morph': '--',
                   'lemma': '--'})
    if c['cons']:
        k = T.Tree(T.make_node_data())
        k.data.update({'label': 'X', 'word': 'w', 'num': 1, 'edge': '--'})
        k.parent = t
        t.children.append(k)
    else:
        t.data['num'] = 1
    params = {o: True for o in c['opts']}
    if c['sep'] is not None:
        params['gf_separator'] = c['sep']
    exp = 'NP'
    if 'gf' in c['opts'] and not c['edge'].startswith('-') and (c['cons'] or 'gf_terminals' in c['opts']):
        exp += (c['sep'] or '-') + c['edge']
    if 'mark_heads_marking' in c['opts'] and c['head']:
        exp += "'"
    if 'boyd_split_marking' in c['opts'] and c['split']:
        exp += '*'
    if 'boyd_split_numbering' in c['opts'] and c['split']:
        exp += '2'
    try:
        got = T.get_label(t, **params)
    except Exception as e:
        got = '%s: %s' % (type(e).__name__, e)
    if got != exp:
        out.append({'kind': 'get-label', 'where': 'get_label', 'case': {'get_label': c},
                    'detail': 'get_label(%r) = %r, expected %r' % (c, got, exp),
                    'what': 'decorated label is not category + exactly the requested decorations'})
    return out


def check_roundtrip_only(s, sep):
    """Separators of more than one character (and '=', which is also the gap-index mark): no reference reading of
    the parts, only the property's round trip - formatting what was parsed gives the string back."""
    out = []
    try:
        lab = T.parse_label(s, gf_separator=sep)
        cands = set()
        for flags in ((), ('always_label',), ('always_gf',), ('always_label', 'always_gf')):
            cands.add(T.format_label(T.parse_label(s, gf_separator=sep), **{k: True for k in flags}))
        plain = T.format_label(lab)
        default = lab.label == 'EMPTY' or lab.gf == '--'
        if (plain != s) if not default else (s not in cands):
            out.append({'kind': 'roundtrip', 'where': 'format_label(parse_label)', 'case': {'s': s, 'multisep': sep},
                        'detail': 'separator %r: format(parse(%r)) = %r%s' % (sep, s, plain, '' if not default else ', with always_*: %r' % sorted(cands)),
                        'what': 'format(parse(s)) != s'})
    except Exception as e:
        out.append({'kind': 'exception', 'where': 'parse_label/format_label', 'case': {'s': s, 'multisep': sep},
                    'detail': '%s: %s on %r with separator %r' % (type(e).__name__, e, s, sep), 'what': 'label function raised'})
    return out


def check_readers(sepopt, maxlen, only=None):
    """The readers' gf_split is parse + format with the function taken out: every string of <= maxlen atoms as
    the label of a constituent of a bracketed sentence, read with gf_split (and gf_separator)."""
    import os
    from ..runner import scratch
    from ..bridge import cli_options
    from trees import treeinput
    sep = sepopt or '-'
    labels = [x for L in range(1, maxlen + 1) for x in (''.join(t) for t in itertools.product(ATOMS, repeat=L))]
    if only is not None:
        labels = [only]
    path = os.path.join(scratch(), 'c20-%d.mrg' % os.getpid())
    with open(path, 'w', encoding='utf-8') as f:
        for lab in labels:
            f.write('(VROOT (%s (T w)))\n' % lab)
    opts = {'gf_split': True}
    if sepopt is not None:
        opts['gf_separator'] = sepopt
    out = []
    try:
        got = [(t.children[0].data['label'], t.children[0].data['edge'])
               for t in treeinput.brackets(path, 'utf-8', quiet=True, **cli_options(opts))]
    except Exception as e:
        return [{'kind': 'exception', 'where': 'treeinput.brackets', 'case': {'reader': True, 'sep': sepopt, 'maxlen': maxlen, 'only': only},
                 'detail': '%s: %s' % (type(e).__name__, e), 'what': 'bracket reader with gf_split raised'}], len(labels)
    finally:
        os.unlink(path)
    if len(got) != len(labels):
        return [{'kind': 'tree-count', 'where': 'treeinput.brackets', 'case': {'reader': True, 'sep': sepopt, 'maxlen': maxlen, 'only': only},
                 'detail': '%d trees for %d sentences' % (len(got), len(labels)), 'what': 'bracket reader lost sentences'}], len(labels)
    for lab, (glabel, gedge) in zip(labels, got):
        p = ref_parse(lab, sep)
        exp = ((p['cat'] or 'EMPTY') + ('=' + p['gap'] if p['gap'] else '') + ('-' + p['co'] if p['co'] else '') + p['head'],
               p['gf'] or '--')
        if (glabel, gedge) != exp:
            out.append({'kind': 'reader-split', 'where': 'treeinput.brackets', 'case': {'reader': True, 'sep': sepopt, 'maxlen': maxlen, 'only': lab},
                        'detail': 'label %r read with gf_split (separator %r) gives label %r, edge %r; expected %r, %r'
                                  % (lab, sepopt, glabel, gedge, exp[0], exp[1]),
                        'what': 'gf_split in the bracket reader is not parse + format without the function'})
    return out, len(labels)


def check_case(case):
    if 'clipipe' in case:
        from .. import clipipe
        return clipipe.replay(case)
    with quiet():
        if case.get('pipeline'):
            from . import c05
            return [v for v in c05.check_one(case['mt'], case['root_attach'], case.get('order'), case.get('rules'))[0]
                    if v['kind'] in ('split-marking', 'split-marking-written', 'second-split')]
        if case.get('multisep'):
            return check_roundtrip_only(case['s'], case['multisep'])
        if case.get('reader'):
            return check_readers(case['sep'], case['maxlen'], case.get('only'))[0]
        if 'get_label' in case:
            return check_get_label(case['get_label'])
        return check_string(case['s'], case['sep'])


def strings(chunk):
    pre = chunk['prefix']
    if chunk.get('exact'):
        for L in range(0, chunk['maxlen'] + 1):
            for tup in itertools.product(ATOMS, repeat=L):
                yield ''.join(tup)
        return
    for L in range(0, chunk['maxlen'] - len(pre) + 1):
        if L == 0:
            continue  # the bare prefix belongs to the 'exact' chunk
        for tup in itertools.product(ATOMS, repeat=L):
            yield ''.join(pre) + ''.join(tup)


def run_chunk(chunk):
    if chunk.get('kind') == 'clipipe':
        from .. import clipipe
        res = Result()
        clipipe.run_property(ID, res)
        return res
    res = Result()
    with quiet():
        from ..bridge import reader_history
        reader_history()            # another corpus was read with gf_separator '#' earlier in the process
        if chunk['kind'] == 'multisep':
            n = 0
            for L in range(0, chunk['maxlen'] + 1):
                for tup in itertools.product(ATOMS, repeat=L):
                    s = ''.join(tup)
                    n += 1
                    for v in check_roundtrip_only(s, chunk['sep']):
                        res.violation(v['kind'], v['where'], v['case'], v['detail'], v['what'])
            res.evals += n
            res.nontrivial += n
            res.outcome(('multisep', chunk['sep']))
            res.sample({'separator': chunk['sep'], 'strings': n})
            return res
        if chunk['kind'] == 'reader':
            vs, n = check_readers(chunk['sep'], chunk['maxlen'])
            res.evals += n
            res.nontrivial += n
            res.outcome(('reader', chunk['sep'], len(vs)))
            for v in vs:
                res.violation(v['kind'], v['where'], v['case'], v['detail'], v['what'])
            res.sample({'bracket_reader_gf_split': True, 'gf_separator': chunk['sep'], 'labels': n})
            return res
        if chunk['kind'] == 'pipeline':
            # the decorations on real trees: after boyd_split, and after a second boyd_split on the same objects
            from . import c05
            from .. import sweep as _sweep
            mt = None
            for sh in _sweep.base_shapes(chunk['n']):
                for choice in c05.head_choices(sh):
                    mt = c05.assign_heads(sh, choice)
                    vs, disc = c05.check_one(mt.to_json(), False, None)
                    res.evals += 1
                    res.nontrivial += 1 if disc else 0
                    vs = [v for v in vs if v['kind'] in ('split-marking', 'split-marking-written', 'second-split')]
                    res.outcome(('pipeline', mt.key(), len(vs)))
                    for v in vs:
                        res.violation(v['kind'], v['where'], dict(v['case'], pipeline=True), v['detail'], v['what'])
            if mt is not None:
                res.sample({'split_decorations_on': model.mt_str(mt.root, mt.toks)})
            return res
        if chunk['kind'] == 'get_label':
            for c in get_label_cases():
                res.evals += 1
                res.nontrivial += 1 if c['opts'] else 0
                vs = check_get_label(c)
                res.outcome((repr(c), len(vs)))
                for v in vs:
                    res.violation(v['kind'], v['where'], v['case'], v['detail'], v['what'])
            res.sample({'get_label_case': c})
            return res
        last = None
        for s in strings(chunk):
            nontriv = any(ch in s for ch in "-=#'*") or 'EMPTY' in s
            if nontriv:
                res.nontrivial += 1
            for sep in SEPS:
                res.evals += 1
                vs = check_string(s, sep)
                for v in vs:
                    res.violation(v['kind'], v['where'], v['case'], v['detail'], v['what'])
            lab = T.parse_label(s)
            res.outcome((bool(lab.gf != '--'), bool(lab.coindex), bool(lab.gapindex),
                         bool(lab.headmarker), lab.is_trace, lab.label == 'EMPTY', len(s)))
            last = s
        if last is not None:
            res.sample({'label': last, 'separators': SEPS})
    return res
