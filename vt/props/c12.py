"""C12 root_attach moves only root children, to the lowest node spanning the neighbours."""
from .. import model, sweep
from ..runner import Result, scratch
from ..bridge import T, build, quiet, monitor, extract, mt_equal, all_nodes, build_via_export, perturb, compare_written, build_any

from trees import transform

ID = 'C12'
LEVEL = 'exploration'
TECHNIQUE = 'bounded exhaustive enumeration of tree shapes, set-based reference implementation of the documented rule'


def plan(tier, seed):
    specs = [(1, 1), (2, 2), (3, 2), (4, 2), (5, 1), (6, 1)] if tier == 'quick' else \
            [(1, 2), (2, 3), (3, 3), (4, 2), (5, 2), (6, 1), (7, 1)]
    return {
        'chunks': sweep.shape_chunks(specs, per_chunk=60, big=True) + [{'kind': 'clipipe'}],
        'rule': 'every hierarchy over n tokens (the root then has every mix of token and constituent '
                'children: adjacent, interleaved, inside gaps, at the edges) with up to u unary insertions; '
                'complete parent map after root_attach compared with the set-based reference. '
                'non-trivial = distinct trees in which the reference re-attaches at least one root child',
        'bound': ', '.join('n=%d:u<=%d' % s for s in specs),
        'exhaustive': True,
        'assumptions': ['driver differential (vt/clipipe.py): `treetools transform` with the pipelines that involve this operation, with and without --split, on a six-sentence corpus must write what the named functions give when applied by the harness in the given order',
                        'labels unique per node; edges drawn from a 3-letter alphabet by position'],
    }


def ref_root_attach(mt):
    """Set-based reference.  Returns (new model root, number of real moves)."""
    root = model.canon_mt(mt.root)
    n = mt.n()
    label, edge, kids, parent = {}, {}, {}, {}
    counter = [0]

    def load(nd, par):
        if isinstance(nd, int):
            nid = ('t', nd)
        else:
            counter[0] += 1
            nid = ('c', counter[0])
            label[nid], edge[nid] = nd[0], nd[1]
            kids[nid] = [load(k, nid) for k in nd[2]]
        parent[nid] = par
        return nid
    rid = load(root, None)

    def leafset(nid):
        if nid[0] == 't':
            return {nid[1]}
        s = set()
        for k in kids[nid]:
            s |= leafset(k)
        return s

    moves = 0
    snapshot = sorted(kids[rid], key=lambda k: min(leafset(k)))
    for c in snapshot:
        L = leafset(c)
        t_l, t_r = min(L) - 1, max(L) + 1
        sibs = sorted(kids[parent[c]], key=lambda k: min(leafset(k)))
        fmax = max(L)
        j = sibs.index(c) + 1
        while j < len(sibs):
            S = leafset(sibs[j])
            if min(S) < fmax:
                j += 1
                continue
            if min(S) > fmax + 1:
                break
            t_r = max(S) + 1
            fmax = max(S)
            j += 1
        if t_l < 1 or t_r > n:
            continue
        target = parent[('t', t_l)]
        while t_r not in leafset(target):
            target = parent[target]
        if target != parent[c]:
            moves += 1
        kids[parent[c]].remove(c)
        kids[target].append(c)
        parent[c] = target

    def dump(nid):
        if nid[0] == 't':
            return nid[1]
        return (label[nid], edge[nid], tuple(dump(k) for k in kids[nid]))
    return model.canon_mt(dump(rid)), moves


EDGES = ['HD', 'NK', '--']


def make_mt(sh):
    n = len(model.leaves(sh))
    root = model.decorate(sh, lambda p, s: 'N' + ''.join(map(str, p)),
                          lambda p, s: EDGES[sum(p) % 3])
    toks = model.mk_tokens(n, edge=[EDGES[i % 3] for i in range(n)])
    return model.MT(3, toks, root)


def check_tree(mtj, order=None, pre=None):
    """pre: None | 'punctuation_root' (every second token is a comma and punctuation_root runs first; the
    rule is then applied to the tree as its child lists describe it)."""
    mt = model.MT.from_json(mtj)
    case = {'mt': mtj, 'order': order, 'pre': pre}
    out = []
    try:
        if pre == 'punctuation_root':
            mt = model.MT(mt.sid, [dict(tk, word=',' if i % 2 else tk['word']) for i, tk in enumerate(mt.toks)], mt.root)
        t = build_any(mt, order)
        if pre:
            t = getattr(transform, pre)(t)
            mt = extract(t)
    except Exception as e:
        return [{'kind': 'exception', 'where': 'punctuation_root', 'case': case,
                 'detail': '%s: %s on %s' % (type(e).__name__, e, model.mt_str(mt.root)),
                 'what': 'punctuation_root raised on a well-formed tree'}], 0
    exp_root, moves = ref_root_attach(mt)
    exp = model.MT(mt.sid, mt.toks, exp_root)
    try:
        before = {id(x): x.parent for x in all_nodes(t)}
        r = transform.root_attach(t)
    except Exception as e:
        return [{'kind': 'exception', 'where': 'root_attach', 'case': case,
                 'detail': '%s: %s on %s' % (type(e).__name__, e, model.mt_str(mt.root)),
                 'what': 'root_attach raised on a well-formed tree'}], moves
    probs = monitor(r, mt.n())
    if r is not t:
        probs.append('returned a different node than the root it was given')
    if probs:
        out.append({'kind': 'ill-formed', 'where': 'root_attach', 'case': case,
                    'detail': '%s on %s' % ('; '.join(probs), model.mt_str(mt.root)),
                    'what': 'root_attach returns an ill-formed tree'})
        return out, moves
    got = extract(r)
    d = mt_equal(exp, got, tok_fields=('word', 'pos', 'lemma', 'morph', 'edge'), edges=True, sid=True)
    if d:
        out.append({'kind': 'attach-mismatch', 'where': 'root_attach', 'case': case,
                    'detail': 'input %s: %s' % (model.mt_str(mt.root), d),
                    'what': 'root_attach result differs from the documented rule'})
        return out, moves
    # what the user gets: the result as shown by each writer
    if moves and order is None:
        probs = compare_written(r, exp, model.mt_tree_gap_degree(exp.root) == 0, fmts=('brackets', 'discobrackets', 'export'))
        if probs:
            out.append({'kind': 'attach-written', 'where': 'root_attach', 'case': case,
                        'detail': 'input %s: %s' % (model.mt_str(mt.root), '; '.join(probs)),
                        'what': 'the written result of root_attach differs from the documented rule'})
            return out, moves
    # non-initial state: undo the moves by hand (same objects, only .children/.parent touched) and run
    # root_attach again; the result must be the same as on the fresh tree
    moved = [x for x in all_nodes(r) if x.parent is not before[id(x)]]
    if moved:
        for x in moved:
            x.parent.children = [c for c in x.parent.children if c is not x]
            r.children.append(x)
            x.parent = r
        try:
            r2 = transform.root_attach(r)
            probs = monitor(r2, mt.n())
            d = '; '.join(probs) if probs else mt_equal(exp, extract(r2), tok_fields=('word', 'pos', 'edge'), edges=True)
        except Exception as e:
            d = '%s: %s' % (type(e).__name__, e)
        if d:
            out.append({'kind': 'attach-mismatch-second-run', 'where': 'root_attach', 'case': case,
                        'detail': 'input %s, root_attach applied again after the moved children were put back '
                                  'below the root by hand: %s' % (model.mt_str(mt.root), d),
                        'what': 'root_attach on the same objects gives a different result the second time'})
    # another non-initial state: re-attach the last token elsewhere by hand, then root_attach again
    if not out and perturb(r):
        try:
            m2 = extract(r)
            exp2 = model.MT(m2.sid, m2.toks, ref_root_attach(m2)[0])
            r3 = transform.root_attach(r)
            probs = monitor(r3, mt.n())
            d = '; '.join(probs) if probs else mt_equal(exp2, extract(r3), tok_fields=('word', 'pos', 'edge'), edges=True)
        except Exception as e:
            d = '%s: %s' % (type(e).__name__, e)
        if d:
            out.append({'kind': 'attach-mismatch-after-change', 'where': 'root_attach', 'case': case,
                        'detail': 'input %s, after root_attach the last token was re-attached by hand giving %s; '
                                  'root_attach on that: %s' % (model.mt_str(mt.root), model.mt_str(m2.root), d),
                        'what': 'root_attach on a tree changed in place differs from the documented rule'})
    return out, moves


def check_case(case):
    if 'clipipe' in case:
        from .. import clipipe
        return clipipe.replay(case)
    with quiet():
        return check_tree(case['mt'], case.get('order'), case.get('pre'))[0]


def run_chunk(chunk):
    if chunk.get('kind') == 'clipipe':
        from .. import clipipe
        res = Result()
        clipipe.run_property(ID, res)
        return res
    res = Result()
    with quiet():
        for sh, k in sweep.iter_shapes(chunk):
            mt = make_mt(sh)
            for order in (None, 'rev', 'export', 'written'):
                vs, moves = check_tree(mt.to_json(), order)
                res.evals += 1
                if moves:
                    res.nontrivial += 1
                res.outcome((model.shape_str(sh), order, moves, len(vs)))
                for v in vs:
                    res.violation(v['kind'], v['where'], v['case'], v['detail'], v['what'])
            # the default root label as the label of inner nodes
            vmt = model.MT(mt.sid, mt.toks, model.decorate(sh, lambda p, s: 'VROOT', lambda p, s: EDGES[sum(p) % 3]))
            vs, moves3 = check_tree(vmt.to_json(), None)
            res.evals += 1
            res.nontrivial += 1 if moves3 else 0
            res.outcome((model.shape_str(sh), 'VROOT-labels', moves3, len(vs)))
            for v in vs:
                res.violation(v['kind'], v['where'], v['case'], v['detail'], v['what'])
            # a TOP node above the root: its single child spans the sentence, nothing may move
            vs, moves4 = check_tree(mt.to_json(), None, 'add_topnode')
            res.evals += 1
            res.outcome((model.shape_str(sh), 'add_topnode', moves4, len(vs)))
            for v in vs:
                res.violation(v['kind'], v['where'], v['case'], v['detail'], v['what'])
            if len(model.leaves(sh)) >= 3:
                vs, moves2 = check_tree(mt.to_json(), None, 'punctuation_root')
                res.evals += 1
                res.nontrivial += 1 if moves2 else 0
                res.outcome((model.shape_str(sh), 'punctuation_root', moves2, len(vs)))
                for v in vs:
                    res.violation(v['kind'], v['where'], v['case'], v['detail'], v['what'])
            if moves:
                res.sample({'tree': model.mt_str(mt.root), 'reattached_root_children': moves,
                            'expected': model.mt_str(ref_root_attach(mt)[0])})
    return res


# --- non-initial states: the oracle of this property in every state of the live-state pool
# (vt/livepool.py: BFS over live objects; vt/liveoracles.py: the oracles)
from .. import liveoracles as _lo
_plan0, _run_chunk0, _check_case0 = plan, run_chunk, check_case


def plan(tier, seed):
    p = _plan0(tier, seed)
    p['chunks'] = list(p['chunks']) + _lo.plan_chunks(tier)
    p['assumptions'] = list(p.get('assumptions', [])) + [_lo.assumption()]
    return p


def run_chunk(chunk):
    if chunk.get('kind') == 'live':
        return _lo.run_chunk(ID, chunk, Result())
    return _run_chunk0(chunk)


def check_case(case):
    if isinstance(case, dict) and isinstance(case.get('live'), dict):
        return _lo.replay(case)
    return _check_case0(case)
