"""C08 Rule and lexicon counts are conserved through extraction and binarization."""
import itertools
import collections
from .. import model, sweep
from ..runner import Result
from ..bridge import build, quiet
from .c07 import configs, run_binarize

from trees import grammar

ID = 'C08'
LEVEL = 'exploration'
TECHNIQUE = 'bounded exhaustive enumeration of collision-forcing treebanks x grammar modes, count/flow conservation oracle'


def plan(tier, seed):
    specs = [(1, 2), (2, 2), (3, 1), (4, 1)] if tier == 'quick' else [(1, 3), (2, 3), (3, 2), (4, 1), (5, 1)]
    chunks = sweep.shape_chunks(specs, per_chunk=6, kind='single')
    pool_n = 3
    chunks += [{'kind': 'pairs', 'n': pool_n, 'mod': 16, 'rem': i} for i in range(16)]
    chunks += [{'kind': 'wide', 'L': L} for L in (5, 6, 7, 9)]
    chunks += [{'kind': 'triples'}]
    return {
        'chunks': chunks + [{'kind': 'clipipe-grammar'}],
        'rule': 'treebanks of one tree (every hierarchy over n tokens, <= u unary, x every labelling of the '
                'constituents from {A,B}), of one node with 5, 6, 7 or 9 children (size probes: equal, equal-in-the-middle and alternating tags) and of two trees (every ordered pair from the pool of all labelled '
                'shapes n <= %d), so that the same rule recurs under different parents; grammars: treebank, '
                'leftright, optimal x {deterministic, Markov v,h in 0..3 x nofanout}; the same grammars after a trip through their RCG files (tool writer + tool reader, then binarized) and as decoded from the LoPar file when it is written. Oracle: per-label count sums '
                '= node counts, flow conservation for every symbol. non-trivial = distinct (treebank, mode) cases '
                'in which some rule is observed more than once' % pool_n,
        'bound': ', '.join('n=%d:u<=%d' % s for s in specs) + '; pairs from n <= %d' % pool_n,
        'exhaustive': True,
        'assumptions': ['driver differential (vt/clipipe.py): `treetools grammar` in 11 type / Markov / format / prefix combinations on a six-sentence treebank (same rule under contexts that differ at depth 1 and in fan-out only, one production with two linearizations, a five-child node with equal middle labels) must write, under the prefix given, what extraction + binarization + writer give through the library',
                        'counts of a rule = sum over its vertical contexts',
                        'two-tree treebanks are extracted incrementally: the grammar is binarized once after the first tree, then again after the second'],
    }


def labelings(sh):
    cons = [p for p, _ in model.nodes_of(sh) if p != ()]
    n = len(model.leaves(sh))
    for combo in itertools.product('AB', repeat=len(cons)):
        m = dict(zip(cons, combo))
        root = model.decorate(sh, lambda p, s: m[p])
        yield model.MT(1, model.mk_tokens(n, words=['w'] * n, pos=['x' if i % 2 == 0 else 'y' for i in range(n)]), root)


def conservation(G, lex_tags, roots, nodes_per_label):
    """Returns list of problem strings."""
    probs = []
    lhs_sum = collections.Counter()
    rhs_sum = collections.Counter()
    for func, lins in G.items():
        for lin, verts in lins.items():
            c = sum(verts.values())
            lhs_sum[func[0]] += c
            for x in func[1:]:
                rhs_sum[x] += c
    for lab, cnt in nodes_per_label.items():
        if lhs_sum.get(lab, 0) != cnt:
            probs.append('rules rewriting %s have summed count %d, the treebank has %d such nodes'
                         % (lab, lhs_sum.get(lab, 0), cnt))
    for sym in set(lhs_sum) | set(rhs_sum) | set(lex_tags) | set(roots):
        left = lhs_sum.get(sym, 0) + lex_tags.get(sym, 0)
        right = rhs_sum.get(sym, 0) + roots.get(sym, 0)
        if left != right:
            probs.append('symbol %s: rewritten %d + tagged %d != used on right-hand sides %d + root %d'
                         % (sym, lhs_sum.get(sym, 0), lex_tags.get(sym, 0), rhs_sum.get(sym, 0), roots.get(sym, 0)))
    return probs


_VERB = [0]


def check_bank(mtjs, cfg):
    mts = [model.MT.from_json(j) for j in mtjs]
    # in memory a token may consist of several words (TIGER-XML word attributes with a space): every second token
    mts = [model.MT(m.sid, [dict(tk, word='ad hoc' if i % 2 else tk['word']) for i, tk in enumerate(m.toks)], m.root) for m in mts]
    case = {'bank': mtjs, 'cfg': cfg}
    out = []
    g, lex = {}, {}
    nodes = collections.Counter()
    tags = collections.Counter()
    roots = collections.Counter()
    repeated = False
    try:
        for k, mt in enumerate(mts):
            if (k + len(mts)) % 2 == 0:
                # a refused tree in the history (one constituent emptied by hand): nothing of it may be counted
                from ..bridge import refused_extract
                refused_extract(mt, g, lex)
            grammar.extract(build(mt), g, lex)
            if k < len(mts) - 1 and cfg is not None:
                run_binarize(g, cfg)        # the grammar is also used while it is still growing
            roots[mt.root[0]] += 1
            for nd, _ in model.mt_nodes(mt.root):
                nodes[nd[0]] += 1
            for tk in mt.toks:
                tags[tk['pos']] += 1
        repeated = any(sum(v.values()) > 1 for lins in g.values() for v in lins.values())
        G = g if cfg is None else run_binarize(g, cfg)
        _VERB[0] += 1
        if cfg is not None and _VERB[0] % 3 == 0:
            # verbose mode only prints statistics: the grammar it returns must be the same (thirteenth wave)
            Gv = run_binarize(g, dict(cfg, verb=True))
            if Gv != G:
                out.append({'kind': 'verbose-changes-result', 'where': 'grammar.binarize', 'case': case,
                            'detail': 'binarize(..., verb=True) returns %d productions, without verb %d [treebank %s, mode %r]'
                                      % (len(Gv), len(G), [model.mt_str(m.root) for m in mts], cfg),
                            'what': 'verbose mode changes the binarized grammar'})
    except Exception as e:
        out.append({'kind': 'exception', 'where': 'grammar', 'case': case,
                    'detail': '%s: %s' % (type(e).__name__, e), 'what': 'extract/binarize raised'})
        return out, repeated
    lex_tags = collections.Counter()
    for w, c in lex.items():
        for t, k in c.items():
            lex_tags[t] += k
    if lex_tags != tags:
        out.append({'kind': 'lexicon-counts', 'where': 'grammar.extract', 'case': case,
                    'detail': 'tag counts %r, tokens per tag %r' % (dict(lex_tags), dict(tags)),
                    'what': 'lexicon counts differ from token counts'})
    probs = conservation(G, lex_tags, roots, nodes)
    if probs:
        out.append({'kind': 'count-conservation', 'where': 'grammar.binarize' if cfg else 'grammar.extract',
                    'case': case,
                    'detail': '%s [treebank %s, mode %r]' % ('; '.join(probs[:4]), [model.mt_str(m.root) for m in mts], cfg),
                    'what': 'counts are not conserved (%s)' % ('treebank grammar' if cfg is None else
                                                                'markov' if cfg['markov'] else 'deterministic')})
    return out, repeated


def check_files(mtjs):
    """The same balance for grammars that went through the grammar files: the RCG file re-read by the tool's
    reader (the `grammar` command with an RCG source) and then binarized, and the LoPar file when the writer
    does not refuse the grammar."""
    import os
    from . import c09
    from ..runner import scratch
    from trees import grammaroutput, grammarinput
    mts = [model.MT.from_json(j) for j in mtjs]
    for mt in mts:          # words the writers warn about (raw parentheses) and words that look like comments
        for i, tk in enumerate(mt.toks):
            tk['word'] = ['(', 'w', '#1', ')'][i % 4]
    case = {'files': True, 'bank': mtjs}
    out = []

    def bad(kind, where, detail, what):
        out.append({'kind': kind, 'where': where, 'case': case,
                    'detail': '%s [treebank %s]' % (detail, [model.mt_str(m.root, m.toks) for m in mts]), 'what': what})
    g, lex = {}, {}
    nodes, tags, roots = collections.Counter(), collections.Counter(), collections.Counter()
    dest = os.path.join(scratch(), 'c08g%d' % os.getpid())
    try:
        for mt in mts:
            grammar.extract(build(mt), g, lex)
            roots[mt.root[0]] += 1
            for nd, _ in model.mt_nodes(mt.root):
                nodes[nd[0]] += 1
            for tk in mt.toks:
                tags[tk['pos']] += 1
        grammaroutput.rcg(g, lex, dest, 'utf-8')
        g2, lex2 = grammarinput.rcg(dest, 'utf-8')
    except Exception as e:
        bad('exception', 'grammarinput.rcg', '%s: %s' % (type(e).__name__, e), 'writing/re-reading the RCG files raised')
        return out
    lex_tags = collections.Counter()
    for w, c in lex2.items():
        for t, k in c.items():
            lex_tags[t] += k
    if lex_tags != tags:
        bad('lexicon-counts', 'grammarinput.rcg', 'tag counts after re-reading %r, tokens per tag %r' % (dict(lex_tags), dict(tags)),
            'lexicon counts of the re-read grammar differ from token counts')
    for cfg in (None, {'reordering': 'none', 'markov': None}, {'reordering': 'optimal', 'markov': None},
                {'reordering': 'none', 'markov': {'v': 1, 'h': 1, 'nofanout': False}}):
        try:
            G = g2 if cfg is None else run_binarize(g2, cfg)
        except Exception as e:
            bad('exception', 'grammar.binarize', '%s: %s (mode %r)' % (type(e).__name__, e, cfg), 'binarizing the re-read grammar raised')
            continue
        probs = conservation(G, lex_tags, roots, nodes)
        if probs:
            bad('count-conservation', 'grammarinput.rcg', '%s [mode %r]' % ('; '.join(probs[:4]), cfg),
                'counts are not conserved in a grammar read from its RCG file')
    # the loaded grammar is extended: every tree is extracted once more into the objects the reader returned
    # (dummy contexts from the file next to real ones); every count doubles
    try:
        for mt in mts:
            grammar.extract(build(mt), g2, lex2)
    except Exception as e:
        bad('exception', 'grammar.extract', '%s: %s' % (type(e).__name__, e), 'extending a grammar read from its RCG file raised')
        return out
    twice = lambda c: collections.Counter({k: 2 * v for k, v in c.items()})
    for cfg in (None, {'reordering': 'none', 'markov': None}, {'reordering': 'none', 'markov': {'v': 1, 'h': 1, 'nofanout': False}},
                {'reordering': 'optimal', 'markov': {'v': 2, 'h': 2, 'nofanout': True}}):
        try:
            G = g2 if cfg is None else run_binarize(g2, cfg)
        except Exception as e:
            bad('exception', 'grammar.binarize', '%s: %s (mode %r)' % (type(e).__name__, e, cfg), 'binarizing the extended grammar raised')
            continue
        probs = conservation(G, twice(lex_tags), twice(roots), twice(nodes))
        if probs:
            bad('count-conservation', 'grammarinput.rcg + extract', '%s [mode %r]' % ('; '.join(probs[:4]), cfg),
                'counts are not conserved in a grammar that was read from its RCG file and extended by extraction')
    true_tags = collections.Counter()
    for w, c in lex.items():
        for t, k in c.items():
            true_tags[t] += k
    for cfg in (None, {'reordering': 'none', 'markov': None}):
        try:
            G = g if cfg is None else run_binarize(g, cfg)
            grammaroutput.lopar(G, lex, dest, 'utf-8')
        except ValueError:
            continue            # refused (not context-free): nothing is produced
        except Exception as e:
            bad('exception', 'grammaroutput.lopar', '%s: %s' % (type(e).__name__, e), 'LoPar writer raised')
            continue
        try:
            W = c09.decode_lopar_gram(c09.read(dest + '.gram', 'utf-8'))
        except c09.Bad as e:
            bad('malformed-file', 'grammaroutput.lopar', str(e), 'LoPar grammar file malformed')
            continue
        probs = conservation({f: {l: {'': c} for l, c in ls.items()} for f, ls in W.items()}, true_tags, roots, nodes)
        if probs:
            bad('count-conservation', 'grammaroutput.lopar', '%s [mode %r]' % ('; '.join(probs[:4]), cfg),
                'counts are not conserved in the written LoPar grammar')
        # "... plus its occurrences as a tree root": the .start file carries the root counts
        try:
            starts = c09.decode_counts(c09.read(dest + '.start', 'utf-8'))
        except c09.Bad as e:
            bad('malformed-file', 'grammaroutput.lopar', '.start: %s' % e, 'LoPar start file malformed')
            continue
        rhs_syms = set(x for f in W for x in f[1:])
        want = {s: c for s, c in roots.items() if s not in rhs_syms}
        if starts != want:
            bad('root-counts', 'grammaroutput.lopar', '.start has %r, the treebank has the roots %r [mode %r]' % (starts, want, cfg),
                'the start-symbol counts differ from the number of trees with that root')
    return out


def check_bare_token():
    """A sentence annotated as a bare pre-terminal, `(UH Yes)`: the bracket reader delivers a tree that is a single
    token.  It has no rules, but its token counts in the lexicon, before and after an ordinary tree."""
    import os
    from ..runner import scratch
    from trees import treeinput
    out = []
    path = os.path.join(scratch(), 'bare%d.mrg' % os.getpid())
    with open(path, 'w', encoding='utf-8') as f:
        f.write('(UH Yes)\n(VROOT (S (UH Yes) (VB go)))\n(UH Yes)\n')
    try:
        g, lex = {}, {}
        n = 0
        for t in treeinput.brackets(path, 'utf-8', quiet=True):
            grammar.extract(t, g, lex)
            n += 1
        got = {w: dict(c) for w, c in lex.items()}
        want = {'Yes': {'UH': 3}, 'go': {'VB': 1}}
        if n != 3 or got != want:
            out.append({'kind': 'lexicon-counts', 'where': 'grammar.extract', 'case': {'bare_token': True},
                        'detail': '%d trees read; lexicon %r, expected %r (three sentences, two of them a bare (UH Yes))' % (n, got, want),
                        'what': 'a one-token tree without constituents does not count in the lexicon'})
    except Exception as e:
        out.append({'kind': 'exception', 'where': 'grammar.extract', 'case': {'bare_token': True},
                    'detail': '%s: %s' % (type(e).__name__, e), 'what': 'extraction from a bare token tree raised'})
    finally:
        os.unlink(path)
    return out


def check_case(case):
    if 'grammar_run' in case:
        from .. import clipipe
        return clipipe.replay_grammar(case)
    with quiet():
        if case.get('bare_token'):
            return check_bare_token()
        if case.get('files'):
            return check_files(case['bank'])
        return check_bank(case['bank'], case['cfg'])[0]


def run_chunk(chunk):
    if chunk.get('kind') == 'clipipe-grammar':
        from .. import clipipe
        res = Result()
        clipipe.run_grammar(res)
        return res
    res = Result()
    cfgs = [None] + configs('thorough')

    def do(bank, files=True):
        js = [m.to_json() for m in bank]
        for cfg in cfgs:
            vs, rep = check_bank(js, cfg)
            res.evals += 1
            res.nontrivial += 1 if rep else 0
            res.outcome((tuple(m.key() for m in bank), repr(cfg), len(vs)))
            for v in vs:
                res.violation(v['kind'], v['where'], v['case'], v['detail'], v['what'])
        if not files:           # tags that no grammar file format can carry (missing tag): in-memory balance only
            return
        vs = check_files(js)
        res.evals += 1
        res.nontrivial += 1 if rep else 0
        res.outcome((tuple(m.key() for m in bank), 'files', len(vs)))
        for v in vs:
            res.violation(v['kind'], v['where'], v['case'], v['detail'], v['what'])
    with quiet():
        if chunk['kind'] == 'wide':
            # size probes: one node with L children, all tags equal / equal in the middle / alternating
            L = chunk['L']
            if L == 5:
                for v in check_bare_token():
                    res.violation(v['kind'], v['where'], v['case'], v['detail'], v['what'])
                res.evals += 1
            for pos in (['x'] * L, ['d'] + ['x'] * (L - 2) + ['n'], ['x' if i % 2 else 'y' for i in range(L)],
                        [None] + ['x'] * (L - 1), [''] + ['x'] * (L - 2) + [None]):      # tags missing in the source (TIGER <t> without pos)
                for nested in (False, True):
                    kids = tuple(range(1, L + 1))
                    root = ('VROOT', '--', (('A', '--', kids),)) if nested else ('VROOT', '--', kids)
                    mt = model.MT(1, model.mk_tokens(L, words=['w'] * L, pos=pos), root)
                    do([mt], files=None not in pos and '' not in pos)
            res.sample({'treebank': [model.mt_str(mt.root, mt.toks)], 'modes': len(cfgs)})
        elif chunk['kind'] == 'triples':
            # three trees, every order: the same rule NP -> ART NN below a VP of fan-out 2, below a PP and below a VP of
            # fan-out 1 - contexts that coincide once fan-outs are stripped need not be seen next to each other
            T = lambda: model.mk_tokens(4, words=['w'] * 4, pos=['ART', 'NN', 'x', 'y'])  # noqa: E731
            NP = ('NP', '--', (1, 2))
            three = [model.MT(1, T(), ('VROOT', '--', (('S', '--', (('VP', '--', (NP, 4)), 3)),))),
                     model.MT(2, T(), ('VROOT', '--', (('S', '--', (('PP', '--', (NP, 3)), 4)),))),
                     model.MT(3, T(), ('VROOT', '--', (('S', '--', (('VP', '--', (NP, 3)), 4)),)))]
            for perm in itertools.permutations(range(3)):
                do([model.MT(k + 1, three[i].toks, three[i].root) for k, i in enumerate(perm)])
                do([model.MT(k + 1, three[i].toks, three[i].root) for k, i in enumerate(perm + perm[:1])])
            res.sample({'treebank': [model.mt_str(m.root) for m in three], 'orders': 12, 'modes': len(cfgs)})
        elif chunk['kind'] == 'single':
            mt = None
            for sh, k in sweep.iter_shapes(chunk):
                for mt in labelings(sh):
                    do([mt])
            if mt:
                res.sample({'treebank': [model.mt_str(mt.root)], 'modes': len(cfgs)})
        else:
            pool = []
            for n in range(2, chunk['n'] + 1):
                for sh, _ in model.shapes_with_unary(n, 1):
                    pool.extend(labelings(sh))
            for sh in ((1, 2, 3, 4), ((1, 2, 3, 4), 5), ((1, 3, 4, 5), 2), ((1, 2, 3, 4, 5),), ((1, 2, 4, 5), 3),
                       # the same rule below a continuous and below a discontinuous node of the same label
                       (((1, 2), 4), 3), (((1, 2), 3), 4)):
                pool.extend(list(labelings(sh))[:1])      # rank 4/5 rules, so that chains have intermediate rules
            pairs = list(itertools.product(range(len(pool)), repeat=2))
            bank = None
            for i, (a, b) in enumerate(pairs):
                if i % chunk['mod'] != chunk['rem']:
                    continue
                bank = [model.MT(1, pool[a].toks, pool[a].root), model.MT(2, pool[b].toks, pool[b].root)]
                do(bank)
            if bank:
                res.sample({'treebank': [model.mt_str(m.root) for m in bank], 'modes': len(cfgs)})
    return res
