"""C05 Crossing-branch removal always yields continuous trees, heads kept in place."""
import io
import copy
import itertools
import collections
from .. import model, sweep, refs, codecs
from ..runner import Result
from ..bridge import T, build, quiet, monitor, extract, mt_equal, all_nodes, raw_leaves, cli_options, build_any, perturb

from trees import transform, treeoutput

ID = 'C05'
LEVEL = 'exploration'
TECHNIQUE = 'bounded exhaustive enumeration of tree shapes x head assignments, set-based split-and-raise reference'


def plan(tier, seed):
    specs = [(2, 1), (3, 1), (4, 1), (5, 1), (6, 0)] if tier == 'quick' else \
            [(2, 2), (3, 2), (4, 2), (5, 1), (6, 1), (7, 0)]
    chunks = sweep.shape_chunks(specs, per_chunk=24, big=True, tier=tier)
    for n in range(2, (6 if tier == 'quick' else 7)):
        total = len(sweep.base_shapes(n))
        for lo in range(0, total, 200):
            chunks.append({'kind': 'cli', 'n': n, 'lo': lo, 'hi': min(total, lo + 200)})
    return {
        'chunks': chunks + [{'kind': 'clipipe'}],
        'rule': 'every hierarchy over n tokens with up to u unary insertions x every head assignment (one head '
                'child per constituent, expressed through HD edges) x {with, without root_attach first}; '
                'boyd_split alone (blocks, head block, marking/numbering via get_label and, for discontinuous inputs, as written by the export 3 / export 4 / discobrackets writers and read back by the independent decoders) and the full pipeline against the '
                'set-based reference; the same pipeline through `treetools transform --trans ...` on corpora holding every '
                'shape up to n = 5 (6) as one sentence each. non-trivial = distinct (shape, heads, root_attach) cases whose input is '
                'discontinuous',
        'bound': ', '.join('n=%d:u<=%d' % s for s in specs),
        'exhaustive': True,
        'assumptions': ['driver differential (vt/clipipe.py): `treetools transform` with the pipelines that involve this operation, with and without --split, on a six-sentence corpus must write what the named functions give when applied by the harness in the given order',
                        'head assignments are driven through edge labels read by negra_mark_heads',
                        'child lists are stored in token order or reversed (quick: alternating per case; thorough: both)'],
    }


def assign_heads(sh, choice, extra_hd=False):
    """Decorate shape with unique labels and HD edges on the chosen head children.
    choice: dict path -> head child index."""
    n = len(model.leaves(sh))
    tok_edges = ['--'] * n

    def rec(s, path, edge):
        if isinstance(s, int):
            tok_edges[s - 1] = edge
            return s
        lab = 'VROOT' if path == () else 'N' + ''.join(map(str, path))
        h = choice[path]
        # with extra_hd the last child also carries HD (if it is right of the head): the leftmost HD is the head
        return (lab, edge, tuple(rec(k, path + (i,), 'HD' if (i == h or (extra_hd and i == len(s) - 1 and i > h)) else
                                     ('NK' if extra_hd and i < h else '--'))
                                 for i, k in enumerate(s)))
    root = rec(sh, (), '--')
    return model.MT(1, model.mk_tokens(n, edge=tok_edges), root)


def assign_heads_by_category(sh, choice):
    """Same head assignment, but expressed through categories for the PTB head-rule preset: below a
    parent of category S (SQ) the head child is S (SQ) or a token tagged TO (VBZ), every other child is
    SQ (S) or a token tagged zzz — so exactly one child is listed in the parent's head rule.  Labels carry
    function/index decorations."""
    n = len(model.leaves(sh))
    pos = ['zzz'] * n
    uid = [10]

    def rec(s, path, cat, is_head, parent_cat):
        if isinstance(s, int):
            pos[s - 1] = ({'S': 'TO', 'SQ': 'VBZ'}[parent_cat] if is_head else 'zzz') + ('-X' if s % 2 else '')
            return s
        h = choice[path]
        uid[0] += 1
        lab = cat + ('-SBJ-%d' % uid[0] if len(path) % 2 else '=%d' % uid[0])     # unique label, same category
        other = 'SQ' if cat == 'S' else 'S'
        return (lab, '--', tuple(rec(k, path + (i,), cat if i == h else other, i == h, cat)
                                 for i, k in enumerate(s)))
    root = rec(sh, (), 'S', False, None)
    return model.MT(1, model.mk_tokens(n, pos=pos), root)


def head_choices(sh):
    paths = [(p, len(s)) for p, s in model.nodes_of(sh)]
    for combo in itertools.product(*[range(k) for _, k in paths]):
        yield {p: c for (p, _), c in zip(paths, combo)}


def span_head_lookup(span_head, nd):
    return span_head[tuple(model.leaves(nd))]


def node_span(x):
    return sorted(l.data['num'] for l in raw_leaves(x))


def check_one(mtj, root_attach, order=None, rules=None):
    """rules: None (NeGra heuristic over HD edges) or {'preset': 'ptb', 'choice': [[path, head index], ...]}."""
    mt = model.MT.from_json(mtj)
    case = {'mt': mtj, 'root_attach': root_attach, 'order': order, 'rules': rules}
    out = []

    def bad(kind, where, detail, what):
        out.append({'kind': kind, 'where': where, 'case': case,
                    'detail': '%s [input %s, root_attach=%s]' % (detail, model.mt_str(mt.root, mt.toks), root_attach),
                    'what': what})
    try:
        t = build_any(mt, order)
        if root_attach:
            t = transform.root_attach(t)
        base = extract(t, sid=True)        # tree the rest of the pipeline starts from
        base.sid = mt.sid
        if rules:
            t = transform.mark_heads_by_rules(t, mark_heads_preset=rules['preset'])
            if rules.get('choice') is None:
                flags = {}
                for x in all_nodes(t):
                    if x.children:
                        ks = sorted(x.children, key=lambda c: node_span(c)[0])
                        hs = [i for i, c in enumerate(ks) if c.data.get('head') is True]
                        if len(hs) != 1:
                            bad('one-head', 'mark_heads_by_rules', 'children of %s carry head flags %r'
                                % (x.data['label'], [c.data.get('head') for c in ks]),
                                'not exactly one head child per constituent')
                            return out, False
                        flags[tuple(node_span(x))] = hs[0]
                rules = dict(rules, flags=flags)
        else:
            t = transform.negra_mark_heads(t)
        t = transform.boyd_split(t)
    except Exception as e:
        bad('exception', 'boyd_split', '%s: %s' % (type(e).__name__, e), 'pipeline raised')
        return out, False
    probs = monitor(t, mt.n())
    if probs:
        bad('ill-formed', 'boyd_split', '; '.join(probs), 'boyd_split returns an ill-formed tree')
        return out, False
    disc = model.mt_tree_gap_degree(base.root) > 0
    # --- after boyd_split alone
    by_label = {}
    for x in all_nodes(t):
        if x.children:
            by_label.setdefault(x.data['label'], []).append(x)
    for nd in model.mt_all(base.root):
        if isinstance(nd, int):
            continue
        blocks = model.blocks_of(model.leaves(nd))
        got = sorted(by_label.get(nd[0], []), key=lambda x: node_span(x)[0])
        spans = [node_span(x) for x in got]
        if spans != blocks:
            bad('split-blocks', 'boyd_split', 'node %s covering blocks %r is represented by nodes covering %r'
                % (nd[0], blocks, spans), 'boyd_split does not make one node per block')
            continue
        if len(blocks) > 1:
            hb = [bool(x.data.get('head_block')) for x in got]
            if hb.count(True) != 1:
                bad('head-block', 'boyd_split', 'node %s: head_block flags %r' % (nd[0], hb),
                    'not exactly one head block')
            if [x.data.get('block_number') for x in got] != list(range(1, len(blocks) + 1)):
                bad('block-number', 'boyd_split', 'node %s: block numbers %r'
                    % (nd[0], [x.data.get('block_number') for x in got]), 'block numbers not 1..k in order')
        for i, x in enumerate(got):
            lab = T.get_label(x, boyd_split_marking=True, boyd_split_numbering=True)
            exp = nd[0] + ('*%d' % (i + 1) if len(blocks) > 1 else '')
            if lab != exp:
                bad('split-marking', 'get_label', 'label of block %d of %s written as %r, expected %r'
                    % (i + 1, nd[0], lab, exp), 'split marking/numbering not on exactly the split nodes')
    # ... "as the split marking/numbering output options show": the same through every writer that carries labels
    exp_nodes = []
    for nd in model.mt_all(base.root):
        if not isinstance(nd, int) and nd is not base.root:
            blocks = model.blocks_of(model.leaves(nd))
            for i, b in enumerate(blocks):
                exp_nodes.append((nd[0] + ('*%d' % (i + 1) if len(blocks) > 1 else ''), tuple(b)))
    for fmt, wopts in (('export', {}), ('export', {'export_four': True}), ('discobrackets', {})):
        if order is not None or not disc:
            break
        wopts = cli_options(dict(wopts, boyd_split_marking=True, boyd_split_numbering=True))
        try:
            stream = io.StringIO()
            getattr(treeoutput, fmt + '_begin')(stream, **wopts)
            getattr(treeoutput, fmt)(copy.deepcopy(t), stream, **wopts)     # writers may rewrite the words
            getattr(treeoutput, fmt + '_end')(stream, **wopts)
            if fmt == 'export':
                g_root = codecs.decode_export(stream.getvalue(), version=4 if 'export_four' in wopts else 3)[0].root
            else:
                g_root = codecs.decode_discobrackets(stream.getvalue())[0][0]
        except Exception as e:
            bad('exception', 'treeoutput.' + fmt, '%s: %s (options %r)' % (type(e).__name__, e, sorted(wopts)),
                'writing the split tree with marking/numbering options failed')
            continue
        got_nodes = [(nd[0], tuple(model.leaves(nd))) for nd in model.mt_all(g_root)
                     if not isinstance(nd, int) and nd is not g_root]
        if sorted(got_nodes) != sorted(exp_nodes):
            bad('split-marking-written', 'treeoutput.' + fmt, 'options %r: written nodes %r, expected %r'
                % (sorted(wopts), sorted(got_nodes), sorted(exp_nodes)),
                'the written file does not show the split marking/numbering on exactly the split nodes')
    n_cons = sum(1 for nd in model.mt_all(base.root) if not isinstance(nd, int))
    n_blocks = sum(len(model.blocks_of(model.leaves(nd))) for nd in model.mt_all(base.root)
                   if not isinstance(nd, int))
    if sum(len(v) for v in by_label.values()) != n_blocks:
        bad('split-count', 'boyd_split', '%d constituents after split, expected %d'
            % (sum(len(v) for v in by_label.values()), n_blocks), 'boyd_split loses or adds nodes')
    # --- raising
    try:
        r = transform.raising(t)
    except Exception as e:
        bad('exception', 'raising', '%s: %s' % (type(e).__name__, e), 'raising raised')
        return out, disc
    probs = monitor(r, mt.n())
    if r is not t:
        probs.append('raising returned a different node')
    if probs:
        bad('ill-formed', 'raising', '; '.join(probs), 'raising returns an ill-formed tree')
        return out, disc
    got = extract(r)
    for x in all_nodes(r):
        sp = node_span(x)
        if sp != list(range(sp[0], sp[-1] + 1)):
            bad('still-discontinuous', 'raising', 'node %s covers %r' % (x.data['label'], sp),
                'a node is still discontinuous after raising')
    if rules and rules.get('choice') is None:
        # categories whose head rule lists nothing: the marking is taken as given, but it must mark exactly
        # one child per constituent, and split-and-raise must follow it
        exp_root = None
        flags = rules['flags']
        try:
            exp_root = refs.split_raise(base, head_index=lambda nd: flags[tuple(model.leaves(nd))])
        except KeyError:
            pass
        if exp_root is None:
            return out, disc
    elif rules:
        heads = {tuple(p): h for p, h in rules['choice']}
        by_label = {}

        def index(nd, path):
            if not isinstance(nd, int):
                by_label[nd[0]] = heads[path]
                for i, k in enumerate(model.canon_mt(nd)[2]):
                    index(k, path + (i,))
        index(model.canon_mt(mt.root), ())
        # labels are unique per node only together with the path; use the token span to identify nodes
        span_head = {}

        def index2(nd, path):
            if not isinstance(nd, int):
                span_head[tuple(model.leaves(nd))] = heads[path]
                for i, k in enumerate(model.canon_mt(nd)[2]):
                    index2(k, path + (i,))
        index2(model.canon_mt(mt.root), ())
        exp_root = refs.split_raise(base, head_index=lambda nd: span_head_lookup(span_head, nd))
    else:
        exp_root = refs.split_raise(base)
    exp = model.MT(mt.sid, base.toks, exp_root)
    d = mt_equal(exp, got, tok_fields=('word', 'pos', 'edge', 'morph', 'lemma'), edges=True, sid=True)
    if d:
        bad('raise-mismatch', 'boyd_split+raising', d, 'result differs from the split-and-raise reference')
    if not disc:
        d = mt_equal(base, got, tok_fields=('word', 'pos', 'edge'), edges=True)
        if d:
            bad('continuous-changed', 'boyd_split+raising', d, 'a continuous tree does not come back unchanged')
    labs_in = sorted(nd[0] for nd in model.mt_all(base.root) if not isinstance(nd, int))
    labs_out = sorted(nd[0] for nd in model.mt_all(got.root) if not isinstance(nd, int))
    if labs_in != labs_out:
        bad('label-multiset', 'boyd_split+raising', '%r != %r' % (labs_in, labs_out), 'label multiset changed')
    # non-initial state: the same objects, a token re-attached by hand (a new gap), split again.  The flags
    # of the first run are still on the nodes; blocks and marking must describe the tree as it is now.
    if not out and rules is None and order is None and perturb(r, 'last'):
        try:
            now = extract(r)
            t2 = transform.boyd_split(transform.negra_mark_heads(r))
            probs = monitor(t2, mt.n())
            if not probs:
                labels = collections.Counter(nd[0] for nd in model.mt_all(now.root) if not isinstance(nd, int))
                exp2 = []
                for nd in model.mt_all(now.root):
                    if not isinstance(nd, int) and nd is not now.root and labels[nd[0]] == 1:
                        blocks = model.blocks_of(model.leaves(nd))
                        exp2 += [(nd[0] + ('*%d' % (i + 1) if len(blocks) > 1 else ''), tuple(b)) for i, b in enumerate(blocks)]
                got2 = [(T.get_label(x, boyd_split_marking=True, boyd_split_numbering=True), tuple(node_span(x)))
                        for x in all_nodes(t2) if x.children and x is not t2 and labels[x.data['label']] == 1]
                if sorted(got2) != sorted(exp2):
                    probs.append('blocks with marking %r, expected %r' % (sorted(got2), sorted(exp2)))
        except Exception as e:
            probs = ['%s: %s' % (type(e).__name__, e)]
        if probs:
            bad('second-split', 'boyd_split', 'after boyd_split+raising the last token was re-attached by hand giving %s; '
                'boyd_split on that: %s' % (model.mt_str(now.root), '; '.join(probs)),
                'boyd_split on a tree that was split and raised before does not describe the tree as it is now')
    return out, disc


def check_cli(n, lo, hi):
    """The README pipeline through the command line: every shape in the slice becomes one sentence of an
    export corpus; `treetools transform --trans root_attach negra_mark_heads boyd_split raising` must write
    the trees the two references (root_attach rule, split-and-raise) predict."""
    import os
    from .. import codecs, cli, sweep as _sweep
    from ..runner import scratch
    from .c12 import ref_root_attach
    shapes = _sweep.base_shapes(n)[lo:hi]
    mts = []
    for i, sh in enumerate(shapes):
        choice = {p: (len(sub) - 1 if (i + len(p)) % 2 else 0) for p, sub in model.nodes_of(sh)}
        m = assign_heads(sh, choice)
        m.sid = i + 1
        mts.append(m)
    case = {'cli': True, 'n': n, 'lo': lo, 'hi': hi}
    out = []
    src = os.path.join(scratch(), 'c05.export')
    dest = os.path.join(scratch(), 'c05.out')
    with open(src, 'w', encoding='utf-8') as f:
        f.write(codecs.encode_export(mts))
    st, so, se, exc = cli.run(['transform', src, dest, '--trans', 'root_attach', 'negra_mark_heads', 'boyd_split', 'raising'])
    if st != 0:
        return [{'kind': 'cli-failed', 'where': 'transform --trans', 'case': case,
                 'detail': 'exit status %r %s' % (st, cli.describe(exc)), 'what': 'pipeline through the CLI failed'}]
    try:
        got = codecs.decode_export(codecs.read_out(dest))
    except codecs.DecodeError as e:
        return [{'kind': 'undecodable', 'where': 'transform --trans', 'case': case, 'detail': str(e),
                 'what': 'pipeline output is not an export file'}]
    if len(got) != len(mts):
        return [{'kind': 'tree-count', 'where': 'transform --trans', 'case': case,
                 'detail': '%d trees written for %d sentences' % (len(got), len(mts)), 'what': 'pipeline lost trees'}]
    for m, g in zip(mts, got):
        attached = model.MT(m.sid, m.toks, ref_root_attach(m)[0])
        exp = model.MT(m.sid, m.toks, refs.split_raise(attached))
        d = mt_equal(exp, g, tok_fields=('word', 'pos', 'edge'), edges=True, sid=True)
        if d:
            out.append({'kind': 'cli-pipeline-mismatch', 'where': 'transform --trans', 'case': case,
                        'detail': 'sentence %d, input %s: %s' % (m.sid, model.mt_str(m.root, m.toks), d),
                        'what': 'the crossing-branch pipeline through the CLI differs from the reference'})
    return out


def check_case(case):
    if 'clipipe' in case:
        from .. import clipipe
        return clipipe.replay(case)
    if case.get('cli'):
        with quiet():
            return check_cli(case['n'], case['lo'], case['hi'])
    with quiet():
        return check_one(case['mt'], case['root_attach'], case.get('order'), case.get('rules'))[0]


def run_chunk(chunk):
    if chunk.get('kind') == 'clipipe':
        from .. import clipipe
        res = Result()
        clipipe.run_property(ID, res)
        return res
    res = Result()
    if chunk.get('kind') == 'cli':
        with quiet():
            vs = check_cli(chunk['n'], chunk['lo'], chunk['hi'])
        res.evals += chunk['hi'] - chunk['lo']
        res.nontrivial += chunk['hi'] - chunk['lo']
        res.outcome((chunk['n'], chunk['lo'], len(vs)))
        for v in vs:
            res.violation(v['kind'], v['where'], v['case'], v['detail'], v['what'])
        res.sample({'cli': 'treetools transform SRC DEST --trans root_attach negra_mark_heads boyd_split raising',
                    'sentences': chunk['hi'] - chunk['lo'], 'tokens_per_sentence': chunk['n']})
        return res
    with quiet():
        idx = 0
        for sh, k in sweep.iter_shapes(chunk):
            for choice in head_choices(sh):
                idx += 1
                mt = assign_heads(sh, choice, extra_hd=(idx % 3 == 0))
                j = mt.to_json()
                orders = (None, 'rev', 'export', 'written') if chunk.get('tier') == 'thorough' else ((None, 'rev', 'export', 'written')[idx % 4],)
                for ra, order in itertools.product((False, True), orders):
                    vs, disc = check_one(j, ra, order)
                    res.evals += 1
                    if disc:
                        res.nontrivial += 1
                    res.outcome((model.shape_str(sh), tuple(sorted(choice.items())), ra, len(vs)))
                    for v in vs:
                        res.violation(v['kind'], v['where'], v['case'], v['detail'], v['what'])
            # the same head assignments expressed through categories for the PTB rule preset (small n)
            if chunk['n'] <= (4 if chunk.get('tier') != 'thorough' else 5) and not k:
                for choice in head_choices(sh):
                    rmt = assign_heads_by_category(sh, choice)
                    rules = {'preset': 'ptb', 'choice': [[list(p), h] for p, h in sorted(choice.items())]}
                    vs, disc = check_one(rmt.to_json(), False, None, rules)
                    res.evals += 1
                    res.nontrivial += 1 if disc else 0
                    res.outcome((model.shape_str(sh), tuple(sorted(choice.items())), 'ptb', len(vs)))
                    for v in vs:
                        res.violation(v['kind'], v['where'], v['case'], v['detail'], v['what'])
            if chunk['n'] <= (4 if chunk.get('tier') != 'thorough' else 5) and not k:
                cats = ['PRN', 'INTJ', 'XYZ', 'FRAG', 'S']
                root = model.decorate(sh, lambda p, s: cats[(sum(p) + len(p)) % len(cats)] + '-9' + ''.join(map(str, p)),
                                      root_label='PRN=9')
                emt = model.MT(1, model.mk_tokens(len(model.leaves(sh)), pos=['zzz'] * len(model.leaves(sh))), root)
                vs, disc = check_one(emt.to_json(), False, None, {'preset': 'ptb', 'choice': None})
                res.evals += 1
                res.nontrivial += 1 if disc else 0
                for v in vs:
                    res.violation(v['kind'], v['where'], v['case'], v['detail'], v['what'])
            if model.mt_tree_gap_degree(mt.root) > 0:
                res.sample({'tree': model.mt_str(mt.root, mt.toks),
                            'expected_after_raising': model.mt_str(refs.split_raise(mt))})
    return res


# --- non-initial states: the oracle of this property in every state of the live-state pool
# (vt/livepool.py: BFS over live objects; vt/liveoracles.py: the oracles)
from .. import liveoracles as _lo
_plan0, _run_chunk0, _check_case0 = plan, run_chunk, check_case


def plan(tier, seed):
    p = _plan0(tier, seed)
    p['chunks'] = list(p['chunks']) + _lo.plan_chunks(tier)
    p['assumptions'] = list(p.get('assumptions', [])) + [_lo.assumption()]
    return p


def run_chunk(chunk):
    if chunk.get('kind') == 'live':
        return _lo.run_chunk(ID, chunk, Result())
    return _run_chunk0(chunk)


def check_case(case):
    if isinstance(case, dict) and isinstance(case.get('live'), dict):
        return _lo.replay(case)
    return _check_case0(case)
