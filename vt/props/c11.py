"""C11 Token-editing transformations change exactly the targeted tokens."""
import os
import io
import itertools
import contextlib
from .. import model, sweep
from ..runner import Result, scratch
from ..bridge import T, build, quiet, monitor, extract, mt_equal, raw_leaves, cli_options, build_any
from .c13 import PUNCT

from trees import transform

# how the tree of a case is obtained: API-built (token order / reversed child lists) or read by the export reader
VIAS = [None, 'rev', 'export', 'written']
_via = [None]

ID = 'C11'
LEVEL = 'exploration'
TECHNIQUE = 'bounded exhaustive enumeration of shapes x targeted-token subsets x terminal files x parameters, list-based reference editor'

TRACE_WORDS = ['*T*-1', '*', '*U*', '0', '*-2', '*ICH*=3', '*T*-12', '*EXP*=10-114']
CONS_LABELS = ['NP-SBJ-1', 'S=2', 'VP', 'WHNP-1', 'SBAR-TMP=2-3', 'WHNP-12', 'NP=10-114']
TRACE_PARAMS = [{}, {'keepall': True}, {'keep': '*T*'}, {'keep': '*T*,*'}, {'keepall': True, 'keepcoindex': True},
                {'keep': '*T*,0', 'keepcoindex': True}]
_counter = itertools.count()


def plan(tier, seed):
    if tier == 'quick':
        dspecs, fspecs = [(1, 2), (2, 2), (3, 1), (4, 1), (5, 0)], [(1, 1), (2, 1), (3, 0)]
    else:
        dspecs, fspecs = [(1, 3), (2, 3), (3, 2), (4, 2), (5, 1), (6, 0)], [(1, 2), (2, 1), (3, 1), (4, 0)]
    chunks = sweep.shape_chunks(dspecs, per_chunk=16, kind='delete')
    chunks += sweep.shape_chunks(fspecs, per_chunk=2, kind='files', plen=3 if tier == 'quick' else 4)
    chunks.append({'kind': 'inventory', 'n': 0, 'u': 0})
    return {
        'chunks': chunks + [{'kind': 'clipipe'}],
        'rule': 'delete: every hierarchy over n tokens (<= u unary) x every subset of token positions being '
                'punctuation (punctuation_delete, quiet on/off), traces (ptb_delete_traces x %d parameter sets), '
                'each single token (delete_terminal), filter_by_length x {lt,gt,eq} x 0..n+1; files: every '
                'hierarchy x terminal files with <= 2 entries over index in {-1,0,..,n+2} (incl. duplicates and '
                'foreign sentence ids) x POS column x quiet for insert_terminals / substitute_terminals; programs: every '
                'sequence of 2..L operations from 7 token-editing operations applied to the same tree object, '
                'composed reference. '
                'non-trivial = distinct cases in which the reference edits at least one token' % len(TRACE_PARAMS),
        'bound': 'delete: ' + ', '.join('n=%d:u<=%d' % s for s in dspecs) + '; files: ' + ', '.join('n=%d:u<=%d' % s for s in fspecs),
        'exhaustive': True,
        'assumptions': ['driver differential (vt/clipipe.py): `treetools transform` with the pipelines that involve this operation, with and without --split, on a six-sentence corpus must write what the named functions give when applied by the harness in the given order',
                        'insert index = 1-based position in the resulting sentence, processed ascending (DESIGN D8)',
                        'indices on POS tags of ordinary tokens are not rewritten (DESIGN D7)',
                        'sentences consisting only of traces are outside the scope (like punctuation-only ones)',
                        'every terminal file gets a fresh file name (name reuse is C18)'],
    }


# ------------------------------------------------------------------ reference editor
def ref_delete(mt, positions):
    """Delete the tokens at `positions`, prune constituents left without tokens, renumber."""
    positions = set(positions)
    keep = [p for p in range(1, mt.n() + 1) if p not in positions]
    newnum = {p: i + 1 for i, p in enumerate(keep)}

    def rec(nd):
        if isinstance(nd, int):
            return newnum.get(nd)
        kids = [k for k in (rec(k) for k in nd[2]) if k is not None]
        if not kids:
            return None
        return (nd[0], nd[1], tuple(kids))
    root = rec(mt.root)
    if root is None:
        root = (mt.root[0], mt.root[1], ())
    return model.MT(mt.sid, [mt.toks[p - 1] for p in keep], root)


def strip_indices(label, keepcoindex):
    import re
    head = ''
    if label.endswith("'"):
        head, label = "'", label[:-1]
    co = ''
    m = re.fullmatch(r'(.*)-([0-9]+)', label, re.S)
    if m:
        label, co = m.group(1), m.group(2)
    m = re.fullmatch(r'(.*)=([0-9]+)', label, re.S)
    if m:
        label = m.group(1)
    return label + ('-' + co if (co and keepcoindex) else '') + head


def compare(kind, where, case, mt, exp, r, t, fields=('word', 'pos', 'edge', 'lemma', 'morph'), out=None,
            same_root=True):
    def bad(k, detail, what=None):
        out.append({'kind': k, 'where': where, 'case': case,
                    'detail': '%s [input %s]' % (detail, model.mt_str(mt.root, mt.toks)),
                    'what': what or ('%s: %s' % (where, k))})
    probs = monitor(r, exp.n())
    if same_root and r is not t and not probs:
        probs.append('returned a different node than the root it was given')
    if probs:
        bad('ill-formed' if 'not the root' not in ' '.join(probs) else 'not-root', '; '.join(probs),
            '%s does not return the root of a well-formed tree' % where)
        return
    got = extract(r)
    if case.get('via') == 'brackets':       # the bracket format carries words, tags and structure only
        fields = tuple(f for f in fields if f in ('word', 'pos'))
    d = mt_equal(exp, got, tok_fields=fields, edges=case.get('via') != 'brackets', sid=True)
    if d:
        bad(kind, d)


# ------------------------------------------------------------------ deletions
def check_punct(mtj, quiet_flag):
    mt = model.MT.from_json(mtj)
    case = {'via': _via[0], 'op': 'punctuation_delete', 'mt': mtj, 'quiet': quiet_flag}
    out = []
    pos = [i + 1 for i, tk in enumerate(mt.toks) if tk['word'] in PUNCT]
    if len(pos) == mt.n():
        exp, exp_lines = mt, []
    else:
        exp = ref_delete(mt, pos)
        exp_lines = ['%s\t%s\t%s\t%s' % (mt.sid, p, mt.toks[p - 1]['word'], mt.toks[p - 1]['pos']) for p in pos]
    t = build_any(mt, _via[0])
    so, se = io.StringIO(), io.StringIO()
    try:
        with contextlib.redirect_stdout(so), contextlib.redirect_stderr(se):
            r = transform.punctuation_delete(t, **({'quiet': True} if quiet_flag else {}))
    except Exception as e:
        out.append({'kind': 'exception', 'where': 'punctuation_delete', 'case': case,
                    'detail': '%s: %s [input %s]' % (type(e).__name__, e, model.mt_str(mt.root, mt.toks)),
                    'what': 'punctuation_delete raised'})
        return out, bool(pos)
    compare('delete-mismatch', 'punctuation_delete', case, mt, exp, r, t, out=out)
    lines = [l for l in so.getvalue().split('\n') if l]
    if lines != exp_lines:
        out.append({'kind': 'printed-lines', 'where': 'punctuation_delete', 'case': case,
                    'detail': 'printed %r, expected %r' % (lines, exp_lines),
                    'what': 'punctuation_delete does not list exactly the deleted tokens'})
    if quiet_flag and se.getvalue():
        out.append({'kind': 'not-quiet', 'where': 'punctuation_delete', 'case': case,
                    'detail': 'quiet, but stderr has %r' % se.getvalue(), 'what': 'quiet ignored'})
    return out, bool(pos) and len(pos) < mt.n()


def trace_category(word):
    import re
    w = word
    m = re.fullmatch(r'(.*)-([0-9]+)', w, re.S)
    co = ''
    if m:
        w, co = m.group(1), m.group(2)
    m = re.fullmatch(r'(.*)=([0-9]+)', w, re.S)
    if m:
        w = m.group(1)
    return w, co


def check_traces(mtj, params):
    mt = model.MT.from_json(mtj)
    case = {'via': _via[0], 'op': 'ptb_delete_traces', 'mt': mtj, 'params': params}
    out = []
    keep = params.get('keep', '').split(',') if 'keep' in params else []
    keepall = 'keepall' in params
    keepco = 'keepcoindex' in params
    delete, toks = [], []
    for i, tk in enumerate(mt.toks):
        tk = dict(tk)
        if tk['pos'] == '-NONE-':
            cat, co = trace_category(tk['word'])
            if keepall or cat in keep:
                tk['pos'] = cat + ('-' + co if (co and keepco) else '')
                tk['word'] = '-NONE-'
            else:
                delete.append(i + 1)
        toks.append(tk)
    if len(delete) == mt.n():
        return out, False

    def relabel(nd):
        if isinstance(nd, int):
            return nd
        return (strip_indices(nd[0], keepco), nd[1], tuple(relabel(k) for k in nd[2]))
    exp = ref_delete(model.MT(mt.sid, toks, relabel(mt.root)), delete)
    t = build_any(mt, _via[0])
    try:
        r = transform.ptb_delete_traces(t, **params)
    except Exception as e:
        out.append({'kind': 'exception', 'where': 'ptb_delete_traces', 'case': case,
                    'detail': '%s: %s [input %s, params %r]' % (type(e).__name__, e, model.mt_str(mt.root, mt.toks), params),
                    'what': 'ptb_delete_traces raised'})
        return out, True
    compare('trace-mismatch', 'ptb_delete_traces', case, mt, exp, r, t, out=out)
    return out, bool(delete) or any(tk['pos'] == '-NONE-' for tk in mt.toks)


def check_delete_terminal(mtj, position):
    mt = model.MT.from_json(mtj)
    case = {'via': _via[0], 'op': 'delete_terminal', 'mt': mtj, 'position': position}
    out = []
    if mt.n() == 1:
        return out
    exp = ref_delete(mt, [position])
    t = build_any(mt, _via[0])
    leaf = [l for l in raw_leaves(t) if l.data['num'] == position][0]
    try:
        T.delete_terminal(t, leaf)
    except Exception as e:
        out.append({'kind': 'exception', 'where': 'delete_terminal', 'case': case,
                    'detail': '%s: %s [input %s]' % (type(e).__name__, e, model.mt_str(mt.root, mt.toks)),
                    'what': 'delete_terminal raised'})
        return out
    compare('delete-mismatch', 'delete_terminal', case, mt, exp, t, t, out=out)
    return out


def check_filter(mtj):
    mt = model.MT.from_json(mtj)
    out = []
    n = mt.n()
    for oper in ('lt', 'gt', 'eq'):
        for val in range(0, n + 2):
            t = build_any(mt, _via[0])
            case = {'via': _via[0], 'op': 'filter_by_length', 'mt': mtj, 'oper': oper, 'val': val}
            drop = {'lt': n < val, 'gt': n > val, 'eq': n == val}[oper]
            try:
                r = transform.filter_by_length(t, **cli_options({'filteroperator': oper, 'filtervalue': val}))   # as --params gives them
            except Exception as e:
                r = e
            if drop and r is not None or (not drop and r is not t):
                out.append({'kind': 'filter', 'where': 'filter_by_length', 'case': case,
                            'detail': 'length %d, %s %d: returned %r' % (n, oper, val, r),
                            'what': 'filter_by_length keeps/drops the wrong trees'})
            elif not drop:
                compare('filter-changed', 'filter_by_length', case, mt, mt, r, t, out=out)
    return out


def ref_insert(mt, entries):
    """entries: list of (sid, idx) in file order; word new<k>, POS NP<k>.  Returns (MT, number inserted)."""
    mine = [(idx, k) for k, (sid, idx) in enumerate(entries) if sid == mt.sid]
    seq = [('old', i + 1) for i in range(mt.n())]
    done = 0
    for idx, k in sorted(mine):
        if 1 <= idx <= len(seq) + 1:
            seq.insert(idx - 1, ('new', k))
            done += 1
    newpos = {}
    toks = []
    for i, (kind, v) in enumerate(seq):
        if kind == 'old':
            newpos[v] = i + 1
            toks.append(mt.toks[v - 1])
        else:
            toks.append({'word': 'new%d' % v, 'pos': 'NP%d' % v, 'lemma': '--', 'morph': '--', 'edge': '--'})

    def rec(nd):
        if isinstance(nd, int):
            return newpos[nd]
        return (nd[0], nd[1], tuple(rec(k) for k in nd[2]))
    root = rec(mt.root)
    root = (root[0], root[1], root[2] + tuple(i + 1 for i, (kind, v) in enumerate(seq) if kind == 'new'))
    return model.MT(mt.sid, toks, root), done


def ref_substitute(mt, entries, with_pos):
    toks = [dict(tk) for tk in mt.toks]
    done = 0
    for k, (sid, idx) in enumerate(entries):
        if sid == mt.sid and 1 <= idx <= mt.n():
            toks[idx - 1]['word'] = 'new%d' % k
            if with_pos:
                toks[idx - 1]['pos'] = 'NP%d' % k
            done += 1
    return model.MT(mt.sid, toks, mt.root), done


# ------------------------------------------------------------------ programs of token-editing operations
PROGRAM_OPS = ['punct', 'ins_first', 'ins_last', 'ins_mid', 'del_first', 'del_last', 'subst', 'filt']


def apply_program_op(op, t, m):
    """Applies one operation to the live tree t (library) and to the model m (reference).
    Returns (returned tree, new model)."""
    n = m.n()
    if op == 'punct':
        pos = [i + 1 for i, tk in enumerate(m.toks) if tk['word'] in PUNCT]
        with contextlib.redirect_stdout(io.StringIO()), contextlib.redirect_stderr(io.StringIO()):
            r = transform.punctuation_delete(t, quiet=True)
        return r, (m if len(pos) == n else ref_delete(m, pos))
    if op.startswith('ins_'):
        idx = {'ins_first': 1, 'ins_last': n + 1, 'ins_mid': max(1, (n + 1) // 2 + 1)}[op]
        entries = [(m.sid, idx), (m.sid + 1, 1)]
        path = write_terminal_file(entries, True)
        try:
            with contextlib.redirect_stdout(io.StringIO()):
                r = transform.insert_terminals(t, terminalfile=path, quiet=True)
        finally:
            os.unlink(path)
        m2, _ = ref_insert(m, entries)
        # inserted tokens get fresh names so that later insertions stay distinguishable
        return r, m2
    if op in ('del_first', 'del_last'):
        if n < 2:
            return t, m
        k = 1 if op == 'del_first' else n
        leaf = [l for l in raw_leaves(t) if l.data['num'] == k][0]
        T.delete_terminal(t, leaf)
        return t, ref_delete(m, [k])
    if op == 'filt':
        # the length that counts is the CURRENT number of tokens: 'longer than n' keeps a tree of n tokens,
        # 'shorter than n' too, 'equal to n - 1' too
        r = t
        for oper, val in (('gt', n), ('lt', n), ('eq', n - 1), ('eq', n + 1)):
            r = transform.filter_by_length(r, **cli_options({'filteroperator': oper, 'filtervalue': val}))
            if r is None:
                raise AssertionError('filter_by_length %s %d drops a tree of %d tokens' % (oper, val, n))
        return r, m
    if op == 'subst':
        entries = [(m.sid, 1), (m.sid, n + 1)]
        path = write_terminal_file(entries, True)
        try:
            with contextlib.redirect_stdout(io.StringIO()):
                r = transform.substitute_terminals(t, terminalfile=path, quiet=True)
        finally:
            os.unlink(path)
        return r, ref_substitute(m, entries, True)[0]
    raise KeyError(op)


def check_program(mtj, program):
    mt = model.MT.from_json(mtj)
    case = {'via': _via[0], 'op': 'program', 'mt': mtj, 'program': program}
    out = []
    t = build_any(mt, _via[0])
    m = mt
    for i, op in enumerate(program):
        try:
            r, m = apply_program_op(op, t, m)
        except Exception as e:
            out.append({'kind': 'exception', 'where': 'program:' + op, 'case': case,
                        'detail': '%s: %s at step %d of %r [input %s]' % (type(e).__name__, e, i + 1, program, model.mt_str(mt.root, mt.toks)),
                        'what': 'token-editing operation raised after earlier edits of the same tree'})
            return out
        before = len(out)
        compare('program-mismatch', 'program:' + op, case, mt, m, r, t, out=out)
        if len(out) > before:
            out[-1]['detail'] += ' (step %d of %r)' % (i + 1, program)
            return out
        t = r
    return out


# ------------------------------------------------------------------ terminal files
def file_entries(n):
    idx = list(range(-1, n + 3))
    singles = [[(1, i)] for i in idx] + [[(9, 1)]]
    pairs = [[(1, i), (1, j)] for i in idx for j in idx if i < j]
    pairs += [[(1, j), (1, i)] for i in idx for j in idx if i < j and (i + j) % 3 == 0]     # lines not in ascending order
    dups = [[(1, 1), (1, 1)], [(1, 0), (1, 0)]]
    mixed = [[(9, 1), (1, 1)], [(1, n + 1), (9, 2)]]
    # the lines of one sentence need not be adjacent (two lists concatenated)
    mixed += [[(1, 1), (9, 1), (1, n)], [(1, 1), (9, 2), (1, 2), (9, 5)], [(9, 1), (1, 1), (9, 2), (1, n + 1)],
              [(1, 1), (9, 1), (1, 1)]]
    return [[]] + singles + pairs + dups + mixed


def write_terminal_file(entries, with_pos):
    k0 = next(_counter)
    path = os.path.join(scratch(), 'terms-%d-%d.txt' % (os.getpid(), k0))
    text = ''.join('%d %d new%d%s\n' % (sid, idx, k, ' NP%d' % k if with_pos else '') for k, (sid, idx) in enumerate(entries))
    # file-level features, rotating: as written / no newline after the last line / CRLF line ends
    # (blank lines are not part of the format: the unchanged tool rejects them)
    if k0 % 3 == 1:
        text = text.rstrip('\n')
    elif k0 % 3 == 2:
        text = text.replace('\n', '\r\n')
    with open(path, 'w', encoding='utf-8', newline='') as f:
        f.write(text)
    return path


def check_insert(mtj, entries, quiet_flag):
    mt = model.MT.from_json(mtj)
    case = {'via': _via[0], 'op': 'insert_terminals', 'mt': mtj, 'entries': entries, 'quiet': quiet_flag}
    out = []
    mine = [(idx, k) for k, (sid, idx) in enumerate(entries) if sid == mt.sid]
    dup = len(set((sid, idx) for sid, idx in entries)) != len(entries)
    path = write_terminal_file(entries, True)
    params = {'terminalfile': path}
    if quiet_flag:
        params['quiet'] = True
    t = build_any(mt, _via[0])
    so = io.StringIO()
    try:
        with contextlib.redirect_stdout(so):
            r = transform.insert_terminals(t, **params)
        err = None
    except Exception as e:
        err, r = e, None
    finally:
        os.unlink(path)
    if dup:
        if err is None:
            out.append({'kind': 'duplicate-accepted', 'where': 'insert_terminals', 'case': case,
                        'detail': 'a terminal file with a duplicate index is accepted', 'what': 'duplicate index accepted'})
        return out, False
    if err is not None:
        out.append({'kind': 'exception', 'where': 'insert_terminals', 'case': case,
                    'detail': '%s: %s [input %s, file %r]' % (type(err).__name__, err, model.mt_str(mt.root, mt.toks), entries),
                    'what': 'insert_terminals raised'})
        return out, True
    # reference: ascending index, valid iff 1 <= idx <= current length + 1
    seq = [('old', i + 1) for i in range(mt.n())]
    done = 0
    for idx, k in sorted(mine):
        if 1 <= idx <= len(seq) + 1:
            seq.insert(idx - 1, ('new', k))
            done += 1
    newpos = {}
    toks = []
    for i, (kind, v) in enumerate(seq):
        if kind == 'old':
            newpos[v] = i + 1
            toks.append(mt.toks[v - 1])
        else:
            toks.append({'word': 'new%d' % v, 'pos': 'NP%d' % v, 'lemma': '--', 'morph': '--', 'edge': '--'})

    def rec(nd):
        if isinstance(nd, int):
            return newpos[nd]
        return (nd[0], nd[1], tuple(rec(k) for k in nd[2]))
    root = rec(mt.root)
    root = (root[0], root[1], root[2] + tuple(i + 1 for i, (kind, v) in enumerate(seq) if kind == 'new'))
    exp = model.MT(mt.sid, toks, root)
    compare('insert-mismatch', 'insert_terminals', case, mt, exp, r, t, out=out)
    if quiet_flag and so.getvalue():
        out.append({'kind': 'not-quiet', 'where': 'insert_terminals', 'case': case,
                    'detail': 'quiet, but printed %r' % so.getvalue(), 'what': 'quiet ignored'})
    return out, done > 0


def check_substitute(mtj, entries, with_pos, quiet_flag):
    mt = model.MT.from_json(mtj)
    case = {'via': _via[0], 'op': 'substitute_terminals', 'mt': mtj, 'entries': entries, 'with_pos': with_pos, 'quiet': quiet_flag}
    out = []
    dup = len(set((sid, idx) for sid, idx in entries)) != len(entries)
    path = write_terminal_file(entries, with_pos)
    params = {'terminalfile': path}
    if quiet_flag:
        params['quiet'] = True
    t = build_any(mt, _via[0])
    try:
        with contextlib.redirect_stdout(io.StringIO()):
            r = transform.substitute_terminals(t, **params)
        err = None
    except Exception as e:
        err, r = e, None
    finally:
        os.unlink(path)
    if dup:
        if err is None:
            out.append({'kind': 'duplicate-accepted', 'where': 'substitute_terminals', 'case': case,
                        'detail': 'a terminal file with a duplicate index is accepted', 'what': 'duplicate index accepted'})
        return out, False
    if err is not None:
        out.append({'kind': 'exception', 'where': 'substitute_terminals', 'case': case,
                    'detail': '%s: %s [input %s, file %r, quiet=%s]' % (type(err).__name__, err, model.mt_str(mt.root, mt.toks), entries, quiet_flag),
                    'what': 'substitute_terminals raised on an out-of-range request' })
        return out, True
    toks = [dict(tk) for tk in mt.toks]
    done = 0
    for k, (sid, idx) in enumerate(entries):
        if sid == mt.sid and 1 <= idx <= mt.n():
            toks[idx - 1]['word'] = 'new%d' % k
            if with_pos:
                toks[idx - 1]['pos'] = 'NP%d' % k
            done += 1
    exp = model.MT(mt.sid, toks, mt.root)
    compare('substitute-mismatch', 'substitute_terminals', case, mt, exp, r, t, out=out)
    return out, done > 0


def check_file_history():
    """One terminal file, used for a whole treebank: a short sentence for which an entry is out of range comes
    first, then a longer sentence with the same sentence id (treebanks are processed section by section, ids
    restart).  The longer sentence must get exactly what it gets when the same file content is used under a new
    name for it alone."""
    out = []
    short = model.simple_mt((1, 2), sid=1)
    long_ = model.simple_mt(((1, 2), 3, (4, 5)), sid=1)
    for fname, with_pos in (('insert_terminals', True), ('substitute_terminals', False), ('substitute_terminals', True)):
        entries = [(1, 2), (1, 4)]
        results = []
        for history in (True, False):
            path = write_terminal_file(entries, with_pos)
            try:
                with contextlib.redirect_stdout(io.StringIO()), contextlib.redirect_stderr(io.StringIO()):
                    if history:
                        try:
                            getattr(transform, fname)(build(short), terminalfile=path, quiet=True)
                        except Exception:
                            pass
                    r = getattr(transform, fname)(build(long_), terminalfile=path, quiet=True)
                results.append(model.mt_str(extract(r).root, extract(r).toks) if not monitor(r) else 'ill-formed: %s' % monitor(r))
            except Exception as e:
                results.append('%s: %s' % (type(e).__name__, e))
            finally:
                os.unlink(path)
        if results[0] != results[1]:
            out.append({'kind': 'file-history', 'where': fname, 'case': {'file_history': fname, 'with_pos': with_pos},
                        'detail': 'entries %r: after a shorter sentence with the same id was processed with the same file the result is %s, '
                                  'with the file used for this sentence alone %s' % (entries, results[0], results[1]),
                        'what': '%s: result depends on sentences processed earlier with the same terminal file' % fname})
    # a refused file in the middle of a history: file A is used, then a file B that is refused (double index after a valid
    # line; a file that does not exist), then A again - the second use of A must give what the first one gave
    for fname, with_pos in (('insert_terminals', True), ('substitute_terminals', False)):
        for refusal in ('double-index', 'missing'):
            path_a = write_terminal_file([(1, 2)], with_pos)
            path_b = write_terminal_file([(1, 3), (1, 1), (1, 1)], with_pos)
            if refusal == 'missing':
                os.unlink(path_b)
            results = []
            try:
                with contextlib.redirect_stdout(io.StringIO()), contextlib.redirect_stderr(io.StringIO()):
                    for step in ('A', 'B', 'A'):
                        try:
                            r = getattr(transform, fname)(build(long_), terminalfile=path_a if step == 'A' else path_b, quiet=True)
                            results.append(model.mt_str(extract(r).root, extract(r).toks) if not monitor(r) else 'ill-formed: %s' % monitor(r))
                        except Exception as e:
                            results.append('%s: %s' % (type(e).__name__, e))
            finally:
                for pth in (path_a, path_b):
                    if os.path.exists(pth):
                        os.unlink(pth)
            if results[0] != results[2]:
                out.append({'kind': 'file-history', 'where': fname, 'case': {'file_history': fname, 'with_pos': with_pos},
                            'detail': 'terminal file A gives %s; after a call with a refused file (%s: %s) the same file A gives %s'
                                      % (results[0], refusal, results[1][:80], results[2]),
                            'what': '%s: result depends on a refused terminal file used in between' % fname})
    return out


def check_case(case):
    if 'file_history' in case:
        with quiet():
            return check_file_history()
    if 'clipipe' in case:
        from .. import clipipe
        return clipipe.replay(case)
    with quiet():
        _via[0] = case.get('via')
        op = case['op']
        if op == 'program':
            return check_program(case['mt'], case['program'])
        if op == 'punctuation_delete':
            return check_punct(case['mt'], case['quiet'])[0]
        if op == 'ptb_delete_traces':
            return check_traces(case['mt'], case['params'])[0]
        if op == 'delete_terminal':
            return check_delete_terminal(case['mt'], case['position'])
        if op == 'filter_by_length':
            return check_filter(case['mt'])
        if op == 'insert_terminals':
            return check_insert(case['mt'], [tuple(e) for e in case['entries']], case['quiet'])[0]
        return check_substitute(case['mt'], [tuple(e) for e in case['entries']], case['with_pos'], case['quiet'])[0]


def run_chunk(chunk):
    if chunk.get('kind') == 'clipipe':
        from .. import clipipe
        res = Result()
        clipipe.run_property(ID, res)
        return res
    res = Result()

    def take(vs, nontriv, key):
        res.evals += 1
        res.nontrivial += 1 if nontriv else 0
        res.outcome((key, len(vs)))
        for v in vs:
            res.violation(v['kind'], v['where'], v['case'], v['detail'], v['what'])
        _via[0] = VIAS[res.evals % len(VIAS)]      # the next case gets its tree by the next route
    with quiet():
        _via[0] = None
        n = chunk['n']
        if chunk['kind'] == 'inventory':
            # every symbol of the (harness-side) punctuation inventory, mid-sentence and as the only content of a
            # unary chain, must be deleted (and the chain pruned); look-alikes must stay
            mt = None
            for sym in sorted(PUNCT) + ['....', '..', '\u2026', 'w.', "'s", '-x-']:
                for sh in (((1, 2), 3), ((1, ((2,),)), 3), (1, (2, 3))):
                    mt = model.MT(1, model.mk_tokens(3, words=['w1', sym, 'w3']), model.decorate(sh, lambda p, s: 'N' + ''.join(map(str, p))))
                    for q in (False, True):
                        vs, nt = check_punct(mt.to_json(), q)
                        take(vs, nt, ('inv', sym, model.shape_str(sh), q))
            res.sample({'punctuation_inventory_symbols': len(PUNCT), 'example': model.mt_str(mt.root, mt.toks)})
            take(check_file_history(), True, ('file-history',))
        elif chunk['kind'] == 'delete':
            subsets = [s for r in range(0, n + 1) for s in itertools.combinations(range(n), r)]
            for sh, k in sweep.iter_shapes(chunk):
                root = model.decorate(sh, lambda p, s: CONS_LABELS[(sum(p) + len(p)) % len(CONS_LABELS)])
                plain = model.MT(1, model.mk_tokens(n), root)
                pj = plain.to_json()
                for sub in subsets:
                    words = [',;"('[i % 4] if i in sub else 'w%d' % (i + 1) for i in range(n)]
                    mt = model.MT(1, model.mk_tokens(n, words=words), root)
                    for q in (False, True):
                        vs, nt = check_punct(mt.to_json(), q)
                        take(vs, nt, ('p', model.shape_str(sh), sub, q))
                    if sub and len(sub) < n:
                        words = [TRACE_WORDS[(i + 3 * len(sub) + sum(sub)) % len(TRACE_WORDS)] if i in sub else 'w%d' % (i + 1) for i in range(n)]
                        pos = ['-NONE-' if i in sub else 'P%d-1' % (i + 1) for i in range(n)]
                        mt = model.MT(1, model.mk_tokens(n, words=words, pos=pos), root)
                        for params in TRACE_PARAMS:
                            vs, nt = check_traces(mt.to_json(), params)
                            take(vs, nt, ('t', model.shape_str(sh), sub, repr(params)))
                for p in range(1, n + 1):
                    take(check_delete_terminal(pj, p), n > 1, ('d', model.shape_str(sh), p))
                take(check_filter(pj), True, ('f', model.shape_str(sh)))
                res.sample({'tree': model.mt_str(mt.root, mt.toks), 'ops': ['punctuation_delete', 'ptb_delete_traces x params',
                                                                           'delete_terminal', 'filter_by_length']})
        else:
            entries_list = file_entries(n)
            for sh, k in sweep.iter_shapes(chunk):
                mt = model.simple_mt(sh, sid=1)
                j = mt.to_json()
                for entries in entries_list:
                    for q in (False, True):
                        vs, nt = check_insert(j, entries, q)
                        take(vs, nt, ('i', model.shape_str(sh), tuple(entries), q))
                        for wp in (False, True):
                            vs, nt = check_substitute(j, entries, wp, q)
                            take(vs, nt, ('s', model.shape_str(sh), tuple(entries), q, wp))
                # sentence ids that come from the bracket reader's numbering option (first id 0)
                if model.is_continuous(sh):
                    j0 = model.simple_mt(sh, sid=0).to_json()
                    for entries in ([(0, 1)], [(0, n + 1)], [(0, 1), (1, 1)], [(1, 1)]):
                        _via[0] = 'brackets'
                        vs, nt = check_insert(j0, entries, True)
                        take(vs, nt, ('i0', model.shape_str(sh), tuple(entries)))
                        _via[0] = 'brackets'
                        vs, nt = check_substitute(j0, entries, True, True)
                        take(vs, nt, ('s0', model.shape_str(sh), tuple(entries)))
                # programs: every sequence of 2..L token-editing operations on the same tree object
                words = ['w1', ',', 'w3', ';', 'w5'][:n]
                pmt = model.MT(1, model.mk_tokens(n, words=words), mt.root)
                pj = pmt.to_json()
                for L in range(2, chunk.get('plen', 2) + 1):
                    for program in itertools.product(PROGRAM_OPS, repeat=L):
                        take(check_program(pj, list(program)), True, ('prog', model.shape_str(sh), program))
                res.sample({'tree': model.mt_str(pmt.root, pmt.toks), 'terminal_file_entries(sid,index)': entries_list[-3],
                            'ops': ['insert_terminals', 'substitute_terminals'], 'programs_of': PROGRAM_OPS})
    return res


# --- non-initial states: the oracle of this property in every state of the live-state pool
# (vt/livepool.py: BFS over live objects; vt/liveoracles.py: the oracles)
from .. import liveoracles as _lo
_plan0, _run_chunk0, _check_case0 = plan, run_chunk, check_case


def plan(tier, seed):
    p = _plan0(tier, seed)
    p['chunks'] = list(p['chunks']) + _lo.plan_chunks(tier)
    p['assumptions'] = list(p.get('assumptions', [])) + [_lo.assumption()]
    return p


def run_chunk(chunk):
    if chunk.get('kind') == 'live':
        return _lo.run_chunk(ID, chunk, Result())
    return _run_chunk0(chunk)


def check_case(case):
    if isinstance(case, dict) and isinstance(case.get('live'), dict):
        return _lo.replay(case)
    return _check_case0(case)
