"""Writes /verif/evidence/<id>.json and validates it against a hand-coded copy
of the rules of EVIDENCE.schema.json (no jsonschema in /venv)."""
import os
import json

HERE = os.path.dirname(os.path.dirname(os.path.abspath(__file__)))
LEVELS = ('exploration', 'fault_enumeration', 'model_checking', 'proof',
          'translation_validation', 'other')


def validate(ev):
    probs = []
    for k in ('property_id', 'tier', 'seed', 'level', 'coverage', 'wall_s'):
        if k not in ev:
            probs.append('missing ' + k)
    if probs:
        return probs
    if ev['tier'] not in ('quick', 'thorough'):
        probs.append('tier')
    if not isinstance(ev['seed'], int):
        probs.append('seed')
    if ev['level'] not in LEVELS:
        probs.append('level')
    cov = ev['coverage']
    gen_ok = (isinstance(cov.get('evaluations'), int) and cov['evaluations'] >= 1
              and isinstance(cov.get('distinct_nontrivial'), int)
              and cov['distinct_nontrivial'] >= 2
              and isinstance(cov.get('rule'), str)
              and isinstance(cov.get('samples'), list) and len(cov['samples']) >= 1)
    if ev['level'] in ('exploration', 'fault_enumeration'):
        if not gen_ok:
            probs.append('exploration keys (evaluations>=1, distinct_nontrivial>=2, rule, samples)')
    elif ev['level'] == 'model_checking':
        keys = ('states', 'transitions', 'traces_validated_against_impl', 'samples')
        if all(k in cov for k in keys):
            if not (isinstance(cov['states'], int) and cov['states'] >= 1
                    and isinstance(cov['transitions'], int) and cov['transitions'] >= 1
                    and isinstance(cov['traces_validated_against_impl'], int)
                    and isinstance(cov['samples'], list) and cov['samples']):
                probs.append('model_checking keys')
        elif not gen_ok:
            probs.append('model_checking fallback keys')
    return probs


def write(pid, mod, plan, total, tier, seed, wall, n_new):
    samples = total.samples or [{'note': 'no sample recorded'}]
    cov = {
        'evaluations': int(total.evals),
        'distinct_nontrivial': int(total.nontrivial),
        'rule': plan.get('rule', ''),
        'samples': samples,
        'exhaustive': bool(plan.get('exhaustive', True)) and not total.capped,
        'bound': plan.get('bound', ''),
        'distinct_observed_outcomes': len(total.outcomes),
        'chunks': len(plan['chunks']),
        'cap_hit': bool(total.capped),
    }
    if mod.LEVEL == 'model_checking':
        cov['states'] = int(total.states)
        cov['transitions'] = int(total.transitions)
        cov['traces_validated_against_impl'] = int(total.traces)
        cov['explanation'] = plan.get('explanation', '')
    for k, v in sorted(total.extra.items()):
        cov.setdefault(k, v)
    ev = {'property_id': pid, 'tier': tier, 'seed': int(seed), 'level': mod.LEVEL,
          'coverage': cov,
          'assumptions': plan.get('assumptions', []),
          'wall_s': round(wall, 2), 'violations': int(n_new)}
    probs = validate(ev)
    if probs:
        print('HARNESS-WARNING evidence for %s does not validate: %s' % (pid, probs))
    edir = os.environ.get('VT_EVIDENCE_DIR') or os.path.join(HERE, 'evidence')
    os.makedirs(edir, exist_ok=True)
    path = os.path.join(edir, pid + '.json')
    with open(path + '.tmp', 'w') as f:
        json.dump(ev, f, indent=1, ensure_ascii=False, default=str)
        f.write('\n')
    os.replace(path + '.tmp', path)
    return path
