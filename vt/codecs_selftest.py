"""decode(encode(m)) == m over all shapes n <= 4 (<= 1 unary) for every format."""
from . import model, codecs
from .bridge import mt_equal


def run():
    ok = True
    words = ['a', ',', '&<"', "ä'日", '#', '*T*-1']
    n_cases = 0
    for n in range(1, 5):
        for sh, _ in model.shapes_with_unary(n, 1):
            mt = model.simple_mt(sh, sid=7, words=[words[i % len(words)] for i in range(n)],
                                 lemma=['l%d' % i for i in range(n)],
                                 morph=['m%d' % i for i in range(n)],
                                 edge=['HD', 'NK', '--', 'SB'][:n])
            mt2 = model.simple_mt(sh, sid=9)
            n_cases += 1
            for version in (3, 4):
                for lay in ('tabs', 'single'):
                    txt = codecs.encode_export([mt, mt2], version=version, layout=lay)
                    back = codecs.decode_export(txt, version=version)
                    fields = ('word', 'pos', 'morph', 'edge') + (('lemma',) if version == 4 else ())
                    for a, b in zip([mt, mt2], back):
                        d = mt_equal(a, b, tok_fields=fields, edges=True, sid=True)
                        if d or len(back) != 2:
                            ok = False
                            print('SELFTEST-FAIL export v%d %s: %s' % (version, lay, d))
            txt = codecs.encode_tigerxml([mt, mt2])
            back = codecs.decode_tigerxml(txt)
            for a, b in zip([mt, mt2], back):
                d = mt_equal(a, b, tok_fields=('word', 'pos', 'lemma', 'morph', 'edge'), edges=True, sid=True)
                if d:
                    ok = False
                    print('SELFTEST-FAIL tigerxml: %s' % d)
            txt = codecs.encode_discobrackets([mt2, mt2])
            for root, toks in codecs.decode_discobrackets(txt):
                b = model.MT(9, toks, root)
                d = mt_equal(mt2, b)
                if d:
                    ok = False
                    print('SELFTEST-FAIL discobrackets: %s' % d)
            if model.is_continuous(sh):
                txt = codecs.encode_brackets([mt2, mt2])
                for root, toks in codecs.decode_brackets(txt):
                    b = model.MT(9, toks, root)
                    d = mt_equal(mt2, b)
                    if d:
                        ok = False
                        print('SELFTEST-FAIL brackets: %s' % d)
    # decoders must reject broken documents
    for bad in ['#BOS 1\na\t\t\tX\t--\t\t--\t500\n#EOS 1\n',          # dangling parent
                '#BOS 1\na\t\t\tX\t--\t\t--\t0\n#501\t\t\tY\t--\t\t--\t0\n#EOS 1\n',  # not from 500 / childless
                '#BOS 1\na\t\t\tX\t--\t\t--\t0\n#EOS 2\n']:
        try:
            codecs.decode_export(bad)
            ok = False
            print('SELFTEST-FAIL export decoder accepts %r' % bad)
        except codecs.DecodeError:
            pass
    for bad in ['<corpus><body><s id="1"><graph><terminals><t id="1" word="a&b" pos="x"/></terminals>'
                '<nonterminals><nt id="0" cat="V"><edge label="--" idref="1"/></nt></nonterminals></graph></s></body></corpus>',
                '<corpus><body><s id="1"><graph><terminals><t id="1" word="a" pos="x"/></terminals>'
                '<nonterminals><nt id="0" cat="V"><edge label="--" idref="2"/></nt></nonterminals></graph></s></body></corpus>']:
        try:
            codecs.decode_tigerxml(bad)
            ok = False
            print('SELFTEST-FAIL tigerxml decoder accepts %r' % bad)
        except codecs.DecodeError:
            pass
    for bad in ['(A (B b)\n', '(A b c)\n', '(A (B b))(C c)\n', '(A )\n']:
        try:
            codecs.decode_brackets(bad)
            ok = False
            print('SELFTEST-FAIL bracket decoder accepts %r' % bad)
        except codecs.DecodeError:
            pass
    print('codecs selftest: %d trees x formats %s' % (n_cases, 'ok' if ok else 'FAILED'))
    return ok
