"""Differential check of the `treetools transform` driver, shared by the property drivers.

A command line `transform SRC DEST --src-format F --src-opts .. --trans T1 T2 .. --params .. --dest-opts ..
[--split SPEC]` must write exactly what the library gives when the harness itself reads SRC with the tool's
reader (reader options parsed by the harness), applies the named transformation functions to every tree, in the
order given, as often as given, with the parameters given (a tree for which a transformation returns None is
dropped), and writes the survivors with the tool's export writer.  With --split the parts, taken in order, must
concatenate to the same text (the export format has neither header nor footer).

The library functions are the same on both sides, so this decides nothing about them; it decides whether the
driver hands every sentence, every transformation, every parameter and every option to them.  Each property
driver runs it with pipelines that end in (or depend on) the operation the property is about.
"""
import io
import os
import glob

from . import model, codecs, cli
from .runner import scratch
from .bridge import quiet


def my_options(items):
    """Harness-side reading of `key` / `key:value` option lists (documented: digits become int)."""
    out = {}
    for it in items:
        if ':' in it:
            k, v = it.split(':', 1)
            out[k] = int(v) if v.isdigit() else v
        else:
            out[it] = True
    return out


def corpus():
    """Five export sentences: punctuation below the root and inside constituents, two discontinuous nodes,
    a unary chain at the root, a node with four children, paired quotes, a one-token sentence."""
    T = model.mk_tokens
    s1 = model.MT(1, T(6, words=['Das', ',', 'was', 'er', 'sagt', '.'], pos=['PDS', '$,', 'PRELS', 'PPER', 'VVFIN', '$.'],
                       edge=['HD', '--', 'OA', 'SB', 'HD', '--']),
                  ('VROOT', '--', (('NP', 'SB', (1, ('S', 'RC', (3, 4, 5)))), 2, 6)))
    s2 = model.MT(2, T(5, words=['Hans', 'hat', 'gestern', 'Bier', 'getrunken'], pos=['NE', 'VAFIN', 'ADV', 'NN', 'VVPP'],
                       edge=['SB', 'HD', 'MO', 'OA', 'HD']),
                  ('VROOT', '--', (('S', '--', (1, 2, ('VP', 'OC', (3, 4, 5)))),)))
    s3 = model.MT(3, T(6, words=['"', 'Ja', '"', 'sagte', 'er', '.'], pos=['$(', 'ITJ', '$(', 'VVFIN', 'PPER', '$.'],
                       edge=['--', 'HD', '--', 'HD', 'SB', '--']),
                  ('VROOT', '--', (1, ('S', '--', (('DL', 'OC', (2,)), 4, 5)), 3, 6)))
    s4 = model.MT(4, T(5, words=['Was', 'hat', 'er', 'da', 'gesagt'], pos=['PWS', 'VAFIN', 'PPER', 'ADV', 'VVPP'],
                       edge=['OA', 'HD', 'SB', 'MO', 'HD']),
                  ('VROOT', '--', (('S', '--', (('VP', 'OC', (1, 4, 5)), 2, 3)),)))
    s5 = model.MT(5, T(1, words=['Ja'], pos=['ITJ'], edge=['--']), ('VROOT', '--', (1,)))
    s6 = model.MT(6, T(7, words=['a', ',', 'b', ',', 'c', 'und', 'd'], pos=['NN', '$,', 'NN', '$,', 'NN', 'KON', 'NN'],
                       edge=['CJ', '--', 'CJ', '--', 'CJ', 'CD', 'CJ']),
                  ('VROOT', '--', (('CNP', '--', (1, 3, 5, 6, 7)), 2, 4)))
    return [s1, s2, s3, s4, s5, s6]


def bracket_corpus():
    """The continuous sentences of corpus() with the function glued to the label (LABEL-GF), for gf_split."""
    out = []
    for m in corpus():
        if model.mt_tree_gap_degree(m.root) == 0:
            out.append(m)
    return out


def check_pipeline(trans, params=(), dopts=(), split=None, src='export', src_opts=(), where=None):
    """Returns a list of violation dicts (kind, where, case, detail, what)."""
    from trees import transform as _tf, treeoutput as _to, treeinput as _ti
    trans, params, dopts, src_opts = list(trans), list(params), list(dopts), list(src_opts)
    case = {'clipipe': {'trans': trans, 'params': params, 'dest_opts': dopts, 'split': split, 'src': src,
                         'src_opts': src_opts}}
    label = 'transform --trans ' + ' '.join(trans)
    out = []

    def bad(kind, detail):
        out.append({'kind': kind, 'where': where or label, 'case': case,
                    'detail': '%s [%s --src-format %s --src-opts %r --trans %s --params %r --dest-opts %r --split %r]'
                              % (detail, 'treetools transform', src, src_opts, ' '.join(trans), params, dopts, split),
                    'what': 'the command writes something else than the named functions applied in the given order: ' + kind})
    d = os.path.join(scratch(), 'pipe%d' % os.getpid())
    os.makedirs(d, exist_ok=True)
    for old in glob.glob(os.path.join(d, '*')):
        os.unlink(old)
    terms = os.path.join(d, 'terms.txt')
    with open(terms, 'w', encoding='utf-8') as f:
        f.write('1 1 NEU XX\n2 9 NIE XX\n2 2 ZWEI YY\n')
    params = [p.format(terms=terms) for p in params]
    sp = os.path.join(d, 'in.' + src)
    with open(sp, 'w', encoding='utf-8') as f:
        if src == 'export':
            f.write(codecs.encode_export(corpus(), version=4))
        else:
            f.write(codecs.encode_brackets(bracket_corpus(), gf='-'))
    dest = os.path.join(d, 'out')
    argv = ['transform', sp, dest, '--src-format', src, '--dest-format', 'export']
    if src_opts:
        argv += ['--src-opts'] + src_opts
    if trans:
        argv += ['--trans'] + trans
    if params:
        argv += ['--params'] + params
    if dopts:
        argv += ['--dest-opts'] + dopts
    if split:
        argv += ['--split', split]
    st, so, se, exc = cli.run(argv)
    try:
        stream = io.StringIO()
        kw = my_options(params)
        wkw = my_options(dopts)
        survivors = 0
        with quiet():
            for t in getattr(_ti, src)(sp, 'utf-8', **my_options(src_opts)):
                for name in trans:
                    t = getattr(_tf, name)(t, **kw)
                    if t is None:
                        break
                if t is not None:
                    survivors += 1
                    _to.export(t, stream, **wkw)
        api_text, api_err = stream.getvalue(), None
    except Exception as e:
        api_text, api_err = None, e
    if api_err is not None:
        if st == 0:
            bad('cli-accepts', 'the library pipeline raises %s: %s but the command succeeds' % (type(api_err).__name__, api_err))
        return out
    if split:
        from .props.c17 import ref_split
        if ref_split(split, survivors) is None:          # more trees demanded than survive: must be refused
            if st == 0:
                bad('split-not-refused', '--split %s accepted for %d surviving trees' % (split, survivors))
            return out
    if st != 0:
        bad('cli-failed', 'exit status %r %s' % (st, cli.describe(exc)))
        return out
    try:
        if split:
            files = sorted(glob.glob(dest + '.*'), key=lambda p: int(p.rsplit('.', 1)[1]))
            got = ''.join(codecs.read_out(p) for p in files)
        else:
            got = codecs.read_out(dest) if os.path.exists(dest) else None
    except codecs.DecodeError as e:
        bad('undecodable', str(e))
        return out
    if got is None:
        bad('no-output', 'the destination file was not written')
    elif got != api_text:
        i = next((i for i in range(min(len(got), len(api_text))) if got[i] != api_text[i]), min(len(got), len(api_text)))
        bad('cli-differs-from-api', 'destination differs from the library pipeline at offset %d: %r vs %r'
            % (i, got[max(0, i - 60):i + 60], api_text[max(0, i - 60):i + 60]))
    return out


# pipelines per property: (trans, params, dest-opts[, source format, source options])
PIPELINES = {
    'C04': [(['add_topnode', 'negra_mark_heads', 'binarize'], ['bare_bin_labels'], []),
            (['root_attach', 'negra_mark_heads', 'boyd_split', 'raising'], ['quiet'], []),
            (['add_topnode', 'collapse_unary_chains', 'uncollapse_unary_chains'], ['quiet'], []),
            (['punctuation_root', 'add_topnode', 'root_attach', 'negra_mark_heads', 'binarize'], [], [])],
    'C05': [(['root_attach', 'negra_mark_heads', 'boyd_split', 'raising'], [], ['boyd_split_marking']),
            (['root_attach', 'negra_mark_heads', 'boyd_split'], ['quiet'], ['boyd_split_marking', 'boyd_split_numbering']),
            (['negra_mark_heads', 'boyd_split', 'raising'], [], ['gf'], 'brackets', ['gf_split'])],
    'C11': [(['punctuation_delete', 'filter_by_length'], ['filteroperator:gt', 'filtervalue:4', 'quiet'], []),
            (['filter_by_length', 'punctuation_delete'], ['filteroperator:gt', 'filtervalue:5', 'quiet'], []),
            (['insert_terminals', 'filter_by_length'], ['terminalfile:{terms}', 'filteroperator:gt', 'filtervalue:5', 'quiet'], []),
            (['punctuation_delete', 'punctuation_delete'], ['quiet'], [])],
    'C12': [(['punctuation_root', 'root_attach'], [], []), (['root_attach', 'punctuation_root'], [], []),
            (['insert_terminals', 'root_attach'], ['terminalfile:{terms}', 'quiet'], []),
            (['root_attach', 'root_attach'], [], []), (['root_attach'], ['quiet'], [])],
    'C13': [(['punctuation_verylow', 'negra_mark_heads'], [], ['mark_heads_marking']),
            (['punctuation_root', 'punctuation_verylow', 'negra_mark_heads'], [], []),
            (['root_attach', 'punctuation_symetrify', 'punctuation_verylow'], ['relc:PPER'], []),
            (['punctuation_verylow', 'punctuation_root'], [], []), (['punctuation_root', 'punctuation_verylow'], [], [])],
    'C14': [(['negra_mark_heads', 'binarize'], ['bare_bin_labels'], ['mark_heads_marking']),
            (['negra_mark_heads', 'binarize'], [], ['mark_heads_marking']),
            (['add_topnode', 'collapse_unary_chains', 'uncollapse_unary_chains'], [], []),
            (['collapse_unary_chains', 'collapse_unary_chains'], [], [])],
    'C15': [(['negra_mark_heads', 'boyd_split', 'raising', 'negra_mark_heads'], [], ['mark_heads_marking', 'gf']),
            (['mark_heads_by_rules', 'boyd_split', 'raising', 'mark_heads_by_rules'], ['mark_heads_preset:negra'], ['mark_heads_marking']),
            (['negra_mark_heads'], [], ['mark_heads_marking'], 'brackets', ['gf_split'])],
    'C19': [(['root_attach'], [], []), (['root_attach', 'add_topnode'], ['quiet'], [])],
    'C20': [(['negra_mark_heads'], [], ['gf', 'gf_separator:=', 'mark_heads_marking']),
            (['negra_mark_heads'], [], ['gf', 'gf_separator:#'], 'brackets', ['gf_split']),
            (['negra_mark_heads'], [], ['gf'], 'brackets', ['gf_split', 'gf_separator:-'])],
}
SPLITS = [None, '2#_rest', '50%_50%']


def run_property(pid, res):
    """Runs every pipeline of a property with and without --split; records results in a runner.Result."""
    for p in PIPELINES[pid]:
        trans, params, dopts = p[0], p[1], p[2]
        src = p[3] if len(p) > 3 else 'export'
        sopts = p[4] if len(p) > 4 else []
        for split in SPLITS:
            with quiet():
                vs = check_pipeline(trans, params, dopts, split, src, sopts)
            res.evals += 1
            res.nontrivial += 1
            res.outcome(('pipeline', tuple(trans), tuple(params), tuple(dopts), split, src, len(vs)))
            for v in vs:
                res.violation(v['kind'], v['where'], v['case'], v['detail'], v['what'])
    res.sample({'cli_pipelines': [' '.join(p[0]) for p in PIPELINES[pid]], 'splits': SPLITS,
                'sentences': len(corpus())})


def replay(case):
    p = case['clipipe']
    with quiet():
        return check_pipeline(p['trans'], p['params'], p['dest_opts'], p['split'], p['src'], p['src_opts'])


# ======================================================================== grammar subcommand
def grammar_corpus():
    """Five export sentences (labels without digits) built so that
      - NP -> DT NN occurs below S and below VP (contexts differ at depth 1) and, two levels up, below a
        continuous and a discontinuous VP (contexts differ in fan-out only);
      - S -> VP ADV occurs with two linearizations (VP continuous / discontinuous), and S -> X Y Z with X
        discontinuous once and Y discontinuous once (same labels, same optimal order, different linearization);
      - one node has five children with equal labels in the middle (DT JJ JJ JJ NN)."""
    T = model.mk_tokens

    def np(a, b):
        return ('NP', 'OA', (a, b))
    s1 = model.MT(1, T(4, words=['saw', 'the', 'dog', 'today'], pos=['VB', 'DT', 'NN', 'ADV']),
                  ('VROOT', '--', (('S', '--', (('VP', 'HD', (1, np(2, 3))), 4)),)))
    s2 = model.MT(2, T(4, words=['saw', 'today', 'the', 'dog'], pos=['VB', 'ADV', 'DT', 'NN']),
                  ('VROOT', '--', (('S', '--', (('VP', 'HD', (1, np(3, 4))), 2)),)))
    s3 = model.MT(3, T(3, words=['the', 'dog', 'barks'], pos=['DT', 'NN', 'VB']),
                  ('VROOT', '--', (('S', '--', (np(1, 2), 3)),)))
    s4 = model.MT(4, T(5, words=['a', 'b', 'c', 'd', 'e'], pos=['TA', 'TB', 'TC', 'TA', 'TC']),
                  ('VROOT', '--', (('S', '--', (('X', '--', (1, 4)), ('Y', '--', (2,)), ('Z', '--', (3, 5)))),)))
    s5 = model.MT(5, T(5, words=['a', 'b', 'c', 'd', 'e'], pos=['TA', 'TB', 'TC', 'TB', 'TC']),
                  ('VROOT', '--', (('S', '--', (('X', '--', (1,)), ('Y', '--', (2, 4)), ('Z', '--', (3, 5)))),)))
    s6 = model.MT(6, T(5, words=['the', 'big', 'old', 'red', 'house'], pos=['DT', 'JJ', 'JJ', 'JJ', 'NN']),
                  ('VROOT', '--', (('NP', '--', (1, 2, 3, 4, 5)),)))
    return [s1, s2, s3, s4, s5, s6]


GRAMMAR_RUNS = [
    ('treebank', None, 'pmcfg', 'tb-pcfg'), ('treebank', None, 'rcg', 'tiger'), ('leftright', None, 'pmcfg', 'g.out'),
    ('optimal', None, 'rcg', 'negra-lcfrs'), ('optimal', None, 'pmcfg', 'opt'),
    ('leftright', ['v:1', 'h:1'], 'pmcfg', 'gram'), ('optimal', ['v:1', 'h:2'], 'rcg', 'm'),
    ('leftright', ['v:2', 'h:0'], 'pmcfg', 'x1'), ('leftright', ['nofanout'], 'pmcfg', 'x2'),
    ('optimal', ['v:2', 'h:1', 'nofanout'], 'pmcfg', 'x3'), ('leftright', ['v:1', 'h:0', 'nofanout'], 'rcg', 'x4'),
    # one Markov parameter given, the other left to its default; a parameter given as 0
    ('leftright', ['v:2'], 'pmcfg', 'x5'), ('optimal', ['h:1'], 'pmcfg', 'x6'), ('leftright', ['v:0', 'h:1'], 'pmcfg', 'x7'),
    ('leftright', ['v:0'], 'rcg', 'x8'),
]


def check_grammar_run(gramtype, markov, fmt, dest_name):
    """`treetools grammar` must write, under the prefix it was given, the files the library writes when the
    harness reads the same source, extracts, binarizes with the same settings and calls the same writer."""
    from trees import grammar as _g, grammaroutput as _go, treeinput as _ti
    case = {'grammar_run': [gramtype, markov, fmt, dest_name]}
    out = []

    def bad(kind, detail):
        out.append({'kind': kind, 'where': 'treetools grammar', 'case': case,
                    'detail': '%s [grammar SRC %s %s --markov %r --dest-format %s]' % (detail, dest_name, gramtype, markov, fmt),
                    'what': 'the grammar command writes something else than extraction, binarization and writer give: ' + kind})
    d = os.path.join(scratch(), 'gpipe%d' % os.getpid())
    os.makedirs(d, exist_ok=True)
    for old in glob.glob(os.path.join(d, '*')):
        os.unlink(old)
    sp = os.path.join(d, 'in.export')
    with open(sp, 'w', encoding='utf-8') as f:
        f.write(codecs.encode_export(grammar_corpus()))
    dest = os.path.join(d, dest_name)
    ref = os.path.join(d, 'REF')
    argv = ['grammar', sp, dest, gramtype, '--dest-format', fmt]
    if markov is not None:
        argv += ['--markov'] + list(markov)
    st, so, se, exc = cli.run(argv)
    try:
        with quiet():
            g, lex = {}, {}
            for t in _ti.export(sp, 'utf-8'):
                _g.extract(t, g, lex)
            if gramtype != 'treebank':
                mo = None
                if markov is not None:
                    mo = my_options(markov)
                    mo.setdefault('v', 1)
                    mo.setdefault('h', 2)
                g = _g.binarize(g, reordering=_g.reordering_none if gramtype == 'leftright' else _g.reordering_optimal,
                                markov_opts=mo)
            getattr(_go, fmt)(g, lex, ref, 'utf-8')
    except Exception as e:
        if st == 0:
            bad('cli-accepts', 'the library raises %s: %s but the command succeeds' % (type(e).__name__, e))
        return out
    if st != 0:
        bad('cli-failed', 'exit status %r %s' % (st, cli.describe(exc)))
        return out
    for ext in (fmt, 'lex'):
        want = open(ref + '.' + ext, encoding='utf-8').read()
        path = dest + '.' + ext
        if not os.path.exists(path):
            bad('missing-file', '%s was not written; the directory holds %r' % (os.path.basename(path), sorted(os.listdir(d))))
            continue
        try:
            got = codecs.read_out(path)
        except codecs.DecodeError as e:
            bad('undecodable', str(e))
            continue
        if sorted(got.split('\n')) != sorted(want.split('\n')):
            gl, wl = set(got.split('\n')), set(want.split('\n'))
            bad('cli-differs-from-api', '.%s file: lines only in the command output %r, only in the library output %r'
                % (ext, sorted(gl - wl)[:6], sorted(wl - gl)[:6]))
    return out


def run_grammar(res):
    for gramtype, markov, fmt, dest_name in GRAMMAR_RUNS:
        with quiet():
            vs = check_grammar_run(gramtype, markov, fmt, dest_name)
        res.evals += 1
        res.nontrivial += 1
        res.outcome(('grammar-run', gramtype, repr(markov), fmt, dest_name, len(vs)))
        for v in vs:
            res.violation(v['kind'], v['where'], v['case'], v['detail'], v['what'])
    res.sample({'cli_grammar_runs': ['%s %r %s %s' % r for r in GRAMMAR_RUNS], 'sentences': len(grammar_corpus())})


def replay_grammar(case):
    with quiet():
        return check_grammar_run(*case['grammar_run'])
