"""Model trees and the exhaustive shape enumerator (DESIGN.md §3.2).

A *shape* is a hierarchy over token positions 1..n: a leaf is an int, a
constituent is a tuple of children (a 1-tuple is a unary node).  The root is
always a constituent.  A *model tree* (MT) decorates a shape with labels:
constituent = (label, edge, kids), leaf = int; token attributes are kept in a
separate list.  Nothing here imports the library under test.
"""
import itertools
from functools import lru_cache


# ---------------------------------------------------------------- partitions
def set_partitions(items):
    """All partitions of the list `items` into non-empty blocks; blocks are
    ordered by their first element, elements keep their order."""
    items = list(items)
    n = len(items)
    if n == 0:
        yield []
        return
    # restricted growth strings
    def rec(i, rgs, mx):
        if i == n:
            blocks = [[] for _ in range(mx + 1)]
            for it, b in zip(items, rgs):
                blocks[b].append(it)
            yield blocks
            return
        for b in range(mx + 2):
            rgs.append(b)
            yield from rec(i + 1, rgs, max(mx, b))
            rgs.pop()
    yield from rec(1, [0], 0)


@lru_cache(maxsize=None)
def _hier(n):
    """All hierarchies over positions 0..n-1 forming ONE subtree (no unary
    nodes): leaf for n == 1, else a tuple of >= 2 sub-hierarchies."""
    if n == 1:
        return (0,)
    out = []
    for blocks in set_partitions(range(n)):
        if len(blocks) < 2:
            continue
        subs = []
        for block in blocks:
            subs.append([_relabel(h, block) for h in _hier(len(block))])
        for combo in itertools.product(*subs):
            out.append(tuple(combo))
    return tuple(out)


def _relabel(h, block):
    if isinstance(h, int):
        return block[h]
    return tuple(_relabel(k, block) for k in h)


def leaves(sh):
    """Sorted leaf positions of a shape / model node."""
    out = []
    _leaves(sh, out)
    out.sort()
    return out


def _leaves(sh, out):
    if isinstance(sh, int):
        out.append(sh)
    else:
        kids = sh[2] if _is_mt(sh) else sh
        for k in kids:
            _leaves(k, out)


def _is_mt(node):
    return (isinstance(node, tuple) and len(node) == 3
            and isinstance(node[0], str))


def shapes(n, continuous=False, max_arity=None):
    """All root shapes over positions 1..n without unary nodes (except the
    one-token sentence, whose root is unary over the token)."""
    if n == 1:
        return [(1,)]
    out = []
    for h in _hier(n):
        sh = _relabel(h, list(range(1, n + 1)))
        if continuous and not is_continuous(sh):
            continue
        if max_arity is not None and max_arity_of(sh) > max_arity:
            continue
        out.append(sh)
    return out


def is_contiguous(positions):
    return all(b == a + 1 for a, b in zip(positions, positions[1:]))


def is_continuous(sh):
    """True iff every constituent of the shape covers a contiguous span."""
    if isinstance(sh, int):
        return True
    if not is_contiguous(leaves(sh)):
        return False
    return all(is_continuous(k) for k in sh)


def max_arity_of(sh):
    if isinstance(sh, int):
        return 0
    return max([len(sh)] + [max_arity_of(k) for k in sh])


def sort_shape(sh):
    """Canonical child order: by leftmost position."""
    if isinstance(sh, int):
        return sh
    kids = [sort_shape(k) for k in sh]
    kids.sort(key=lambda k: k if isinstance(k, int) else leaves(k)[0])
    return tuple(kids)


def wrap_positions(sh):
    """Paths (tuples of child indexes) of all subtrees of sh incl. the root ()
    and the leaves."""
    out = [()]
    if not isinstance(sh, int):
        for i, k in enumerate(sh):
            for p in wrap_positions(k):
                out.append((i,) + p)
    return out


def wrap_at(sh, path):
    """Insert a unary node above the subtree at `path` (path () wraps the whole
    root content: the root becomes unary over a node holding its children)."""
    if not path:
        return (sh,)
    i = path[0]
    return tuple(wrap_at(k, path[1:]) if j == i else k
                 for j, k in enumerate(sh))


def with_unary(sh, k):
    """All shapes obtained from sh by exactly k unary insertions (dedup)."""
    cur = {sh}
    for _ in range(k):
        nxt = set()
        for s in cur:
            for p in wrap_positions(s):
                nxt.add(wrap_at(s, p))
        cur = nxt
    return sorted(cur, key=repr)


def shapes_with_unary(n, max_unary, **kw):
    """Base shapes plus every variant with 1..max_unary unary insertions.
    Yields (shape, n_unary_inserted)."""
    seen = set()
    for sh in shapes(n, **kw):
        for k in range(max_unary + 1):
            for s in with_unary(sh, k):
                if s not in seen:
                    seen.add(s)
                    yield s, k


def nodes_of(sh, path=()):
    """(path, subtree) for all constituents of a shape, preorder."""
    if isinstance(sh, int):
        return
    yield path, sh
    for i, k in enumerate(sh):
        yield from nodes_of(k, path + (i,))


def count_nodes(sh):
    return sum(1 for _ in nodes_of(sh))


# ---------------------------------------------------------------- model trees
class MT(object):
    """Decorated model tree.  root = (label, edge, kids) recursively with int
    leaves; toks[i-1] = dict(word,pos,lemma,morph,edge) for position i."""
    __slots__ = ('sid', 'toks', 'root')

    def __init__(self, sid, toks, root):
        self.sid = sid
        self.toks = toks
        self.root = root

    def key(self):
        return (self.sid, tuple(tuple(sorted(t.items())) for t in self.toks),
                canon_mt(self.root))

    def to_json(self):
        return {'sid': self.sid, 'toks': self.toks, 'root': mt_to_json(self.root)}

    @staticmethod
    def from_json(d):
        return MT(d['sid'], d['toks'], mt_from_json(d['root']))

    def n(self):
        return len(self.toks)

    def words(self):
        return [t['word'] for t in self.toks]


def mt_to_json(node):
    if isinstance(node, int):
        return node
    return [node[0], node[1], [mt_to_json(k) for k in node[2]]]


def mt_from_json(j):
    if isinstance(j, int):
        return j
    return (j[0], j[1], tuple(mt_from_json(k) for k in j[2]))


def canon_mt(node):
    """Model node with children sorted by leftmost position."""
    if isinstance(node, int):
        return node
    kids = [canon_mt(k) for k in node[2]]
    kids.sort(key=lambda k: k if isinstance(k, int) else leaves(k)[0])
    return (node[0], node[1], tuple(kids))


def mt_nodes(node, anc=()):
    """Preorder (node, ancestors tuple) over constituents of a model node."""
    if isinstance(node, int):
        return
    yield node, anc
    for k in node[2]:
        yield from mt_nodes(k, anc + (node,))


def mt_all(node):
    """Preorder over all constituents and leaves."""
    yield node
    if not isinstance(node, int):
        for k in node[2]:
            yield from mt_all(k)


def decorate(sh, label_fn=None, edge_fn=None, root_label='VROOT', path=()):
    """Shape -> model node.  label_fn(path, shape_node) / edge_fn(path, node_or_leaf)."""
    if isinstance(sh, int):
        return sh
    if path == ():
        lab = root_label
    else:
        lab = label_fn(path, sh) if label_fn else 'X'
    edge = edge_fn(path, sh) if (edge_fn and path != ()) else '--'
    return (lab, edge, tuple(decorate(k, label_fn, edge_fn, root_label, path + (i,))
                             for i, k in enumerate(sh)))


def mk_tokens(n, words=None, pos=None, lemma=None, morph=None, edge=None):
    toks = []
    for i in range(n):
        toks.append({'word': words[i] if words else 'w%d' % (i + 1),
                     'pos': pos[i] if pos else 'P%d' % (i + 1),
                     'lemma': lemma[i] if lemma else '--',
                     'morph': morph[i] if morph else '--',
                     'edge': edge[i] if edge else '--'})
    return toks


def simple_mt(sh, sid=1, labels='path', **tok_kw):
    """Decorate a shape with distinct labels (N + path) or constant label."""
    n = len(leaves(sh))
    if labels == 'path':
        fn = lambda p, s: 'N' + ''.join(str(i) for i in p)
    elif callable(labels):
        fn = labels
    else:
        fn = lambda p, s: labels
    return MT(sid, mk_tokens(n, **tok_kw), decorate(sh, fn))


def blocks_of(positions):
    """Maximal runs of consecutive integers of a sorted list."""
    out = []
    for p in positions:
        if out and out[-1][-1] + 1 == p:
            out[-1].append(p)
        else:
            out.append([p])
    return out


def mt_gap_degree(node):
    if isinstance(node, int):
        return 0
    return len(blocks_of(leaves(node))) - 1


def mt_tree_gap_degree(root):
    return max(mt_gap_degree(nd) for nd in mt_all(root))


def shape_str(sh):
    if isinstance(sh, int):
        return str(sh)
    return '(' + ' '.join(shape_str(k) for k in sh) + ')'


def mt_str(node, toks=None):
    if isinstance(node, int):
        if toks:
            t = toks[node - 1]
            e = t.get('edge')
            return '%s/%s%s@%d' % (t['word'], t['pos'], ':' + e if e not in ('--', None) else '', node)
        return str(node)
    lab = node[0] + (':' + node[1] if node[1] not in ('--', None) else '')
    return '(' + lab + ' ' + ' '.join(mt_str(k, toks) for k in node[2]) + ')'


# ---------------------------------------------------------------- probes beyond the exhaustive bounds
_BIG = [
    tuple(range(1, 13)),                                                    # flat, 12 tokens
    ((1, 3, 5, 7, 9, 11), 2, 4, 6, 8, 10, 12),                              # one node with five gaps
    ((1, 4, 7, 10), (2, 5, 8, 11), 3, 6, 9, 12),                            # two interleaved discontinuous nodes
    ((1, 2, (3, 4, 5)), (6, (7, 8), 9), 10, 11),                            # continuous, nested, wide
    (((1, 2, 3, 4, 5, 6, 7, 8, 9, 10),), 11),                               # unary node over a wide one
    (1, (2, (3, (4, (5, (6, (7, (8, (9, (10, 11)))))))))),                  # right-branching, depth 10
    (((((((((((1, 2), 3), 4), 5), 6), 7), 8), 9), 10), 11), 12),            # left-branching, depth 11
    ((1, 12), (2, 11), (3, 10), 4, 5, 6, 7, 8, 9),                          # nested discontinuous pairs
    ((1, 2, 3, 10, 11), (4, 5, (6, 7, 8, 9)), 12, 13),                      # 13 tokens, block of 3 + block of 2
    ((1, 11), (2, (3, (4, (5, (6, (7, (8, (9, 10))))))))),                  # binary, one wide gap
    (((1, 10), (2, 12)), (3, (4, (5, (6, (7, (8, (9, 11)))))))),            # binary, crossing gaps
]


def big_shapes(continuous=None, max_arity=None):
    """A fixed list of shapes with 11-13 tokens.  They are not part of any exhaustive bound; they probe for
    slips that depend on size (two-digit token numbers, more than nine children, deep nesting)."""
    out = []
    for sh in _BIG:
        sh = sort_shape(sh)
        if continuous is not None and is_continuous(sh) != continuous:
            continue
        if max_arity is not None and max_arity_of(sh) > max_arity:
            continue
        out.append(sh)
    return out
