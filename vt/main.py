"""Runner: ./check <Cnn|all|selftest> [--tier quick|thorough] [--jobs N] | --replay FILE

Each property driver (vt/props/cNN.py) provides
    ID, LEVEL ('exploration' | 'model_checking'), TECHNIQUE
    plan(tier, seed) -> {'chunks': [json-able, ...], 'rule': str, 'bound': str,
                         'exhaustive': bool, 'assumptions': [str]}
    run_chunk(chunk) -> vt.runner.Result
    check_case(case) -> [violation dict]      (used by --replay)
The runner distributes chunks over worker processes, merges the results,
matches violations against known_findings.json, writes replay artefacts and the
evidence file, and sets the exit status (0 ok / 1 violation / 2 harness error).
"""
import sys
import os
import json
import time
import importlib
import argparse
import shutil
import tempfile
import atexit
import traceback
import multiprocessing as mp

from . import findings, evidence

HERE = os.path.dirname(os.path.dirname(os.path.abspath(__file__)))
ALL = ['C%02d' % i for i in range(1, 21)]


from .runner import Result, StopChunk, scratch, _scratch_root, install_call_watchdog  # noqa: E402,F401


def _worker(args):
    pid, chunk_index, chunk = args
    try:
        install_call_watchdog()
        mod = importlib.import_module('vt.props.' + pid.lower())
        os.chdir(scratch())
        try:
            if isinstance(chunk, dict) and chunk.get('kind') == 'large':
                from . import large
                res = large.run_chunk(pid, chunk)
            else:
                res = mod.run_chunk(chunk)
        except StopChunk as stop:
            res = stop.result
            res.capped = True
            res.extra['chunks_aborted_after_many_violations'] = 1
        for v in res.violations:
            v['chunk'] = chunk
        return chunk_index, res, None
    except BaseException:
        return chunk_index, None, traceback.format_exc()


def run_property(pid, tier, seed, jobs):
    t0 = time.time()
    mod = importlib.import_module('vt.props.' + pid.lower())
    plan = mod.plan(tier, seed)
    from . import large
    plan['chunks'] = list(plan['chunks']) + large.plan_chunks(pid, tier)
    plan['assumptions'] = list(plan.get('assumptions', [])) + [large.assumption()]
    chunks = plan['chunks']
    total = Result()
    errors = []
    work = [(pid, i, c) for i, c in enumerate(chunks)]
    if jobs <= 1 or len(chunks) <= 1:
        results = map(_worker, work)
        pool = None
    else:
        ctx = mp.get_context('fork')
        pool = ctx.Pool(min(jobs, len(chunks)), maxtasksperchild=plan.get('maxtasks'))
        results = pool.imap_unordered(_worker, work)
    collected = {}
    limit = float(os.environ.get('VT_CHUNK_TIMEOUT') or 3600)
    it = iter(results)
    while True:
        try:
            idx, res, err = it.next(timeout=limit) if pool else next(it)
        except StopIteration:
            break
        except mp.TimeoutError:
            errors.append('no chunk finished within %.0f s (a library call does not terminate?); unfinished chunks: %r'
                          % (limit, [c for i, c in enumerate(chunks) if i not in collected][:3]))
            pool.terminate()
            pool = None
            break
        if err:
            errors.append('chunk %d (%r): %s' % (idx, chunks[idx], err))
        else:
            collected[idx] = res
    if pool:
        pool.close()
        pool.join()
    for idx in sorted(collected):
        res = collected[idx]
        total.evals += res.evals
        total.nontrivial += res.nontrivial
        total.outcomes |= res.outcomes
        total.states += res.states
        total.transitions += res.transitions
        total.traces += res.traces
        total.capped = total.capped or res.capped
        total.violations.extend(res.violations)
        for k, v in res.extra.items():
            if isinstance(v, (int, float)):
                total.extra[k] = total.extra.get(k, 0) + v
            else:
                total.extra[k] = v
    with_samples = [i for i in sorted(collected) if collected[i].samples]
    if with_samples:
        picks = sorted(set(with_samples[(len(with_samples) - 1) * j // 3] for j in range(4)))
        for i in picks:
            total.samples.append(collected[i].samples[-1])
    if hasattr(mod, 'finish'):
        mod.finish(total, plan, tier)
    wall = time.time() - t0
    if errors:
        for e in errors:
            print('HARNESS-ERROR property=%s %s' % (pid, e))
        return 2, total, plan, wall
    known = findings.load()
    new, matched = findings.classify(pid, total.violations, known)
    for entry, n in matched:
        print('KNOWN-FINDING: property=%s %s [%s; %d case(s) this run]'
              % (pid, entry['what'], entry['id'], n))
    status = 0
    if new:
        status = 1
        rdir = os.path.join(os.environ.get('VT_REPLAY_DIR') or os.path.join(HERE, 'replays'), pid)
        os.makedirs(rdir, exist_ok=True)
        groups = {}
        for v in new:
            groups.setdefault((v['kind'], v['where']), []).append(v)
        k = 0
        for (kind, where), vs in sorted(groups.items()):
            vs.sort(key=lambda v: len(json.dumps(v['case'], default=str)))
            for v in vs[:2]:
                k += 1
                path = os.path.join(rdir, '%s-%03d.json' % (tier, k))
                with open(path, 'w') as f:
                    json.dump({'property': pid, 'kind': kind, 'where': where,
                               'case': v['case'], 'chunk': v.get('chunk'),
                               'detail': v['detail'], 'what': v['what']}, f, indent=1,
                              default=str, ensure_ascii=False)
                print('VIOLATION property=%s replay=%s' % (pid, path))
                print('  kind=%s where=%s (%d case(s)): %s'
                      % (kind, where, len(vs), str(v['detail'])[:600]))
    evidence.write(pid, mod, plan, total, tier, seed, wall, len(new))
    print('%s %s tier=%s evals=%d nontrivial=%d outcomes=%d states=%d transitions=%d '
          'violations=%d known=%d wall=%.1fs%s'
          % ('OK  ' if status == 0 else 'FAIL', pid, tier, total.evals, total.nontrivial,
             len(total.outcomes), total.states, total.transitions, len(new),
             sum(n for _, n in matched), wall, ' CAPPED' if total.capped else ''))
    return status, total, plan, wall


def replay(path):
    with open(path) as f:
        rec = json.load(f)
    pid = rec['property']
    mod = importlib.import_module('vt.props.' + pid.lower())
    os.chdir(scratch())
    print('replaying %s case: %s' % (pid, json.dumps(rec['case'], ensure_ascii=False)[:2000]))
    if isinstance(rec['case'], dict) and 'large' in rec['case']:
        from . import large
        vs = large.replay(pid, rec['case'])
    else:
        vs = mod.check_case(rec['case'])
    if not vs and rec.get('chunk') is not None and not (isinstance(rec['chunk'], dict) and rec['chunk'].get('kind') == 'large'):
        print('case alone passes; replaying its whole chunk (history-dependent failure?)')
        res = mod.run_chunk(rec['chunk'])
        vs = res.violations
    for v in vs:
        print('VIOLATION property=%s replay=%s' % (pid, path))
        print('  kind=%s where=%s: %s' % (v['kind'], v['where'], v['detail']))
    if not vs:
        print('no violation on replay')
    return 1 if vs else 0


def main(argv=None):
    ap = argparse.ArgumentParser(prog='check')
    ap.add_argument('what', nargs='?', default=None)
    ap.add_argument('--tier', default=os.environ.get('VERIF_TIER') or 'quick',
                    choices=['quick', 'thorough'])
    ap.add_argument('--replay', default=None)
    ap.add_argument('--jobs', type=int, default=int(os.environ.get('VT_JOBS') or 0))
    args = ap.parse_args(argv)
    seed = int(os.environ.get('VERIF_SEED') or 0)
    root = _scratch_root()
    os.environ['VT_SCRATCH'] = root
    os.environ['TMPDIR'] = root
    tempfile.tempdir = root
    mainpid = os.getpid()

    def cleanup():
        if os.getpid() == mainpid:
            os.chdir('/')
            shutil.rmtree(root, ignore_errors=True)
    atexit.register(cleanup)
    jobs = args.jobs or (os.cpu_count() or 4)
    if args.replay:
        return replay(args.replay)
    if args.what == 'selftest':
        from . import selftest
        return selftest.run()
    if args.what in (None, 'all'):
        worst = 0
        for pid in ALL:
            if not os.path.exists(os.path.join(HERE, 'vt', 'props', pid.lower() + '.py')):
                continue
            st, _, _, _ = run_property(pid, args.tier, seed, jobs)
            worst = max(worst, st)
        return worst
    pid = args.what.upper()
    st, _, _, _ = run_property(pid, args.tier, seed, jobs)
    return st


if __name__ == '__main__':
    sys.exit(main())
