"""Runs the real command-line entry point (/repo/treetools main()) in-process or as a subprocess."""
import os
import sys
import io
import contextlib
import subprocess
import importlib.machinery
import importlib.util

REPO = os.environ.get('VT_REPO', '/repo')
SCRIPT = os.path.join(REPO, 'treetools')
_mod = None


def _load():
    global _mod
    if _mod is None:
        loader = importlib.machinery.SourceFileLoader('vt_treetools_script', SCRIPT)
        spec = importlib.util.spec_from_loader('vt_treetools_script', loader)
        _mod = importlib.util.module_from_spec(spec)
        loader.exec_module(_mod)
    return _mod


def run(argv):
    """In-process: returns (status, stdout, stderr, exception-or-None)."""
    mod = _load()
    out, err = io.StringIO(), io.StringIO()
    old = sys.argv
    sys.argv = ['treetools'] + [str(a) for a in argv]
    status, exc = 0, None
    try:
        with contextlib.redirect_stdout(out), contextlib.redirect_stderr(err):
            try:
                mod.main()
            except SystemExit as e:
                status = 0 if e.code in (None, 0) else (e.code if isinstance(e.code, int) else 1)
            except BaseException as e:  # what the user would see as a traceback + exit status 1
                status, exc = 1, e
    finally:
        sys.argv = old
    return status, out.getvalue(), err.getvalue(), exc


def parse(argv):
    """The argparse namespace the entry script would build for argv (same sub-parsers as main())."""
    import argparse
    from trees import transform, treeanalysis, grammar, transitions
    parser = argparse.ArgumentParser()
    subparsers = parser.add_subparsers(dest='subparser_name')
    subparsers.required = True
    for m in (transform, treeanalysis, grammar, transitions):
        m.add_parser(subparsers)
    return parser.parse_args([str(a) for a in argv])


def call(ns):
    """Runs the sub-command on a namespace the caller holds (and may hand in again): (status, stdout, stderr, exc)."""
    out, err = io.StringIO(), io.StringIO()
    status, exc = 0, None
    with contextlib.redirect_stdout(out), contextlib.redirect_stderr(err):
        try:
            ns.func(ns)
        except SystemExit as e:
            status = 0 if e.code in (None, 0) else (e.code if isinstance(e.code, int) else 1)
        except BaseException as e:
            status, exc = 1, e
    return status, out.getvalue(), err.getvalue(), exc


def run_subprocess(argv, env_extra=None, cwd=None):
    env = dict(os.environ)
    env['PYTHONPATH'] = REPO
    if env_extra:
        env.update(env_extra)
    p = subprocess.run([sys.executable, '-W', 'ignore', SCRIPT] + [str(a) for a in argv],
                       capture_output=True, env=env, cwd=cwd)
    return p.returncode, p.stdout.decode('utf-8', 'replace'), p.stderr.decode('utf-8', 'replace')


def describe(exc):
    return '' if exc is None else '%s: %s' % (type(exc).__name__, exc)
