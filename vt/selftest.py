"""./check selftest — checks the harness itself (no property is decided here)."""
import re
import os
from . import model, bridge, evidence


def run():
    ok = True

    def expect(cond, msg):
        nonlocal ok
        if not cond:
            ok = False
            print('SELFTEST-FAIL ' + msg)
    # shape enumerator against the table in DESIGN.md §3.2
    table = {1: (1, 1, 1), 2: (1, 1, 1), 3: (4, 3, 3), 4: (26, 11, 15), 5: (236, 45, 105),
             6: (2752, 197, 945)}
    for n, (a, c, b) in table.items():
        expect(len(model.shapes(n)) == a, 'shapes(%d)' % n)
        expect(len(model.shapes(n, continuous=True)) == c, 'continuous shapes(%d)' % n)
        expect(len(model.shapes(n, max_arity=2)) == b, 'binary shapes(%d)' % n)
    # build / extract round trip and monitor on every shape n <= 4 with <= 1 unary
    for n in range(1, 5):
        for sh, _ in model.shapes_with_unary(n, 1):
            mt = model.simple_mt(sh)
            for order in (None, 'rev', 1):
                t = bridge.build(mt, child_order=order)
                expect(bridge.monitor(t, n) == [], 'monitor on built tree %r' % (sh,))
                back = bridge.extract(t)
                expect(bridge.mt_equal(mt, back, edges=True) == '', 'extract(build(m)) == m for %r' % (sh,))
    # monitor must notice broken trees
    mt = model.simple_mt(model.shapes(3)[0])
    t = bridge.build(mt)
    t.children[0].parent = None
    expect(bridge.monitor(t) != [], 'monitor misses a wrong parent pointer')
    t = bridge.build(mt)
    leaf = [l for l in bridge.raw_leaves(t) if l.data['num'] == 1][0]
    leaf.parent.children.remove(leaf)
    expect(bridge.monitor(t) != [], 'monitor misses a hole in the numbering')
    # canonical-form field list (DESIGN §3.4 (c)): every data key used by the library is known
    known = set(bridge.CANON_FIELDS) | {'parent_num', 'terminals'}
    repo = os.environ.get('VT_REPO', '/repo')
    used = set()
    for fn in os.listdir(os.path.join(repo, 'trees')):
        if fn.endswith('.py'):
            src = open(os.path.join(repo, 'trees', fn), encoding='utf-8').read()
            used |= set(re.findall(r"\.data\[['\"](\w+)['\"]\]", src))
            used |= set(re.findall(r"\.data\.get\(['\"](\w+)['\"]", src))
            used |= set(re.findall(r"['\"](\w+)['\"] (?:not )?in \w+(?:\[[^\]]*\])?\.data\b", src))
    extra = used - known
    if extra:
        print('SELFTEST-NOTE data keys not in the canonical form: %s (state hashing is finer than needed '
              'only if these are listed; add them to bridge.CANON_FIELDS)' % sorted(extra))
        ok = False
    # codecs round trips
    try:
        from . import codecs_selftest
        ok = codecs_selftest.run() and ok
    except ImportError:
        pass
    print('selftest %s' % ('ok' if ok else 'FAILED'))
    return 0 if ok else 2
