"""Chunking of the shape space over worker processes."""
from functools import lru_cache
from . import model


@lru_cache(maxsize=None)
def base_shapes(n, continuous=False, max_arity=None):
    return model.shapes(n, continuous=continuous, max_arity=max_arity)


def shape_chunks(specs, per_chunk=40, big=False, **extra):
    """specs: list of (n, max_unary[, continuous[, max_arity]]).  Returns chunk dicts that
    partition the base shapes; unary variants are generated inside the chunk.
    big=True appends one chunk per size probe of model.big_shapes() (11-13 tokens, outside the bound),
    filtered like the last spec."""
    chunks = []
    if big and specs:
        last = specs[-1]
        cont = last[2] if len(last) > 2 else False
        ar = last[3] if len(last) > 3 else None
        for i in range(len(model.big_shapes(True if cont else None, ar))):
            c = {'n': 12, 'u': 0, 'lo': i, 'hi': i + 1, 'big': True}
            if cont:
                c['cont'] = True
            if ar:
                c['ar'] = ar
            c.update(extra)
            chunks.append(c)
    for spec in specs:
        n, u = spec[0], spec[1]
        cont = spec[2] if len(spec) > 2 else False
        ar = spec[3] if len(spec) > 3 else None
        total = len(base_shapes(n, cont, ar))
        # bigger n and more unary insertions -> fewer base shapes per chunk
        size = max(1, per_chunk // max(1, (n * 2) ** u))
        for lo in range(0, total, size):
            c = {'n': n, 'u': u, 'lo': lo, 'hi': min(total, lo + size)}
            if cont:
                c['cont'] = True
            if ar:
                c['ar'] = ar
            c.update(extra)
            chunks.append(c)
    return chunks


def iter_shapes(chunk):
    """Yield (shape, n_unary) for a chunk produced by shape_chunks."""
    if chunk.get('big'):
        for sh in model.big_shapes(True if chunk.get('cont') else None, chunk.get('ar'))[chunk['lo']:chunk['hi']]:
            yield sh, 0
        return
    base = base_shapes(chunk['n'], chunk.get('cont', False), chunk.get('ar'))
    for sh in base[chunk['lo']:chunk['hi']]:
        for k in range(chunk['u'] + 1):
            for s in model.with_unary(sh, k):
                yield s, k
