"""Independent encoders and decoders of the treebank file formats (DESIGN.md §3.3).

Written from the format descriptions; shares no code with /repo/trees.
Encoders produce text for the readers under test (with layout variants),
decoders read what the writers under test produced.  Model trees are vt.model.MT.
"""
import os
import re
import itertools
import xml.etree.ElementTree as ET
from . import model
from .model import MT


# whitespace of the bracket formats is ASCII whitespace (string.whitespace); U+00A0 etc. are word characters
_WS = ' \t\n\r\x0b\x0c'


class DecodeError(Exception):
    pass


def read_out(path, enc='utf-8'):
    """Text of a file the tool wrote; a file that is not valid `enc` is a DecodeError (a finding), not a crash."""
    with open(path, 'rb') as f:
        raw = f.read()
    try:
        return raw.decode(enc)
    except UnicodeDecodeError as e:
        raise DecodeError('%s is not valid %s: %s' % (os.path.basename(path), enc, e))


# ---------------------------------------------------------------- helpers
def _levels(root):
    """{path: level} for constituents; level = longest path to a token."""
    out = {}

    def rec(nd, path):
        if isinstance(nd, int):
            return 0
        lv = 1 + max(rec(k, path + (i,)) for i, k in enumerate(nd[2]))
        out[path] = lv
        return lv
    rec(root, ())
    return out


def constituent_paths(root):
    out = []

    def rec(nd, path):
        if isinstance(nd, int):
            return
        out.append(path)
        for i, k in enumerate(nd[2]):
            rec(k, path + (i,))
    rec(root, ())
    return out


def node_at(root, path):
    nd = root
    for i in path:
        nd = nd[2][i]
    return nd


def standard_numbering(root):
    """Level-based numbering of non-root constituents from 500 (lower levels first,
    left to right), root = 0.  Returns {path: number}."""
    lv = _levels(root)
    cons = [p for p in constituent_paths(root) if p != ()]
    cons.sort(key=lambda p: (lv[p], model.leaves(node_at(root, p))[0]))
    num = {p: 500 + i for i, p in enumerate(cons)}
    num[()] = 0
    return num


def numberings(root, variant):
    """variant 'std' | 'rev' (reverse of std) | ('perm', k) k-th rotation."""
    std = standard_numbering(root)
    cons = [p for p in std if p != ()]
    cons.sort(key=lambda p: std[p])
    if variant == 'std':
        return std
    if variant == 'rev':
        order = cons[::-1]
    else:
        k = variant[1] % max(1, len(cons))
        order = cons[k:] + cons[:k]
    num = {p: 500 + i for i, p in enumerate(order)}
    num[()] = 0
    return num


# ---------------------------------------------------------------- export
def _tabs(layout, length):
    if layout == 'tabs':
        return '\t' * (3 if length < 8 else 2 if length < 16 else 1)
    if layout == 'single':
        return '\t'
    return '   '  # spaces


def encode_export(mts, version=3, header=False, comments=False, secedges=False,
                  numbering='std', line_order='std', layout='tabs', bos_extra=False, cons_morph='--', cons_lemma='--'):
    """A corpus in export format.  The model root must be the virtual root (its label is
    not representable)."""
    out = []
    if header:
        out.append('%% a comment line before the header\n')
        out.append('#FORMAT %d\n' % version)
        out.append('#BOT ORIGIN\n0\tREF\tsome origin\n#EOT ORIGIN\n')
        out.append('#BOT EDITOR\n#EOT EDITOR\n')
    for mt in mts:
        num = numberings(mt.root, numbering)
        parent_of = {}

        def rec(nd, path):
            if isinstance(nd, int):
                return
            for i, k in enumerate(nd[2]):
                parent_of[k if isinstance(k, int) else path + (i,)] = path
                rec(k, path + (i,))
        rec(mt.root, ())
        if comments:
            out.append('%% comment between sentences\n')
        bos = '#BOS %d' % mt.sid
        if bos_extra:
            bos += ' 2 876543210 1'
        if comments:
            bos += ' %% a comment on the BOS line'
        out.append(bos + '\n')
        for i, tok in enumerate(mt.toks):
            pos = i + 1
            fields = [tok['word']]
            if version == 4:
                fields.append(tok['lemma'])
            fields += [tok['pos'], tok['morph'], tok['edge'], str(num[parent_of[pos]])]
            line = ''
            for f in fields[:-1]:
                line += f + _tabs(layout, len(f))
            line += fields[-1]
            if secedges and i % 2 == 0:
                line += _tabs('single', 8) + 'SE' + _tabs('single', 8) + str(num[parent_of[pos]])
            if comments and i % 2 == 1:
                line += ' %% trailing comment'
            out.append(line + '\n')
        cons = [p for p in num if p != ()]
        cons.sort(key=lambda p: num[p], reverse=(line_order == 'rev'))
        for p in cons:
            nd = node_at(mt.root, p)
            fields = ['#%d' % num[p]]
            if version == 4:
                fields.append(cons_lemma)
            fields += [nd[0], cons_morph, nd[1], str(num[parent_of[p]])]
            line = ''
            for f in fields[:-1]:
                line += f + _tabs(layout, len(f))
            line += fields[-1]
            out.append(line + '\n')
        out.append('#EOS %d\n' % mt.sid)
    if comments:
        out.append('%% comment after the last sentence\n')
    return ''.join(out)


def decode_export(text, version=3, cons_out=None):
    """Strict decoder of what the export writer must produce.  Returns a list of MT and
    checks the line-level requirements of C02.  Raises DecodeError.
    cons_out: a list that receives, per sentence, the (morph, lemma) columns of its constituent lines."""
    mts = []
    lines = text.split('\n')
    if lines and lines[-1] == '':
        lines.pop()
    i = 0
    nfields = 5 if version == 3 else 6
    while i < len(lines):
        m = re.fullmatch(r'#BOS (\d+)', lines[i])
        if not m:
            raise DecodeError('expected "#BOS <id>", got %r' % lines[i])
        sid = int(m.group(1))
        i += 1
        rows = []
        while i < len(lines) and not lines[i].startswith('#EOS'):
            rows.append(lines[i])
            i += 1
        if i >= len(lines):
            raise DecodeError('no #EOS for sentence %d' % sid)
        if lines[i] != '#EOS %d' % sid:
            raise DecodeError('#EOS line %r does not match #BOS %d' % (lines[i], sid))
        i += 1
        toks, cons = [], {}
        seen_cons = False
        for row in rows:
            fields = re.split(r'\t+', row)
            if len(fields) != nfields:
                raise DecodeError('line %r has %d tab-separated fields, expected %d'
                                  % (row, len(fields), nfields))
            if any(f == '' or re.search(r'\s', f) for f in fields):
                raise DecodeError('empty field or whitespace inside a field in %r' % row)
            word = fields[0]
            rest = fields[1:]
            lemma = rest.pop(0) if version == 4 else None
            label, morph, edge, parent = rest
            if not parent.isdigit():
                raise DecodeError('parent %r is not a number in %r' % (parent, row))
            parent = int(parent)
            if re.fullmatch(r'#\d{3,}', word):
                seen_cons = True
                k = int(word[1:])
                if k in cons:
                    raise DecodeError('constituent number %d used twice' % k)
                cons[k] = (label, edge, parent, morph, lemma)
            else:
                if seen_cons:
                    raise DecodeError('token line %r after a constituent line' % row)
                toks.append({'word': word, 'pos': label, 'lemma': lemma if version == 4 else '--',
                             'morph': morph, 'edge': edge, '_parent': parent})
        if sorted(cons) != list(range(500, 500 + len(cons))):
            raise DecodeError('constituents are numbered %r, not uniquely from 500' % sorted(cons))
        order = list(cons)
        if order != sorted(order):
            raise DecodeError('constituent lines are not in ascending order: %r' % order)
        kids = {0: []}
        for k in cons:
            kids[k] = []
        for pos, tok in enumerate(toks):
            p = tok.pop('_parent')
            if p not in kids:
                raise DecodeError('token %d refers to parent %d which does not exist' % (pos + 1, p))
            kids[p].append(pos + 1)
        for k, (label, edge, parent, morph, lemma) in cons.items():
            if parent not in kids:
                raise DecodeError('constituent %d refers to parent %d which does not exist' % (k, parent))
            if parent != 0 and parent <= k:
                raise DecodeError('constituent %d is not numbered below its parent %d' % (k, parent))
            kids[parent].append(('c', k))

        def build(k, stack=()):
            if k in stack:
                raise DecodeError('cycle through constituent %d' % k)
            out = []
            for c in kids[k]:
                if isinstance(c, int):
                    out.append(c)
                else:
                    if not kids[c[1]]:
                        raise DecodeError('constituent %d has no children' % c[1])
                    out.append((cons[c[1]][0], cons[c[1]][1], build(c[1], stack + (k,))))
            return tuple(out)
        root = ('VROOT', '--', build(0))
        if sorted(model.leaves(root)) != list(range(1, len(toks) + 1)):
            raise DecodeError('not every token is reachable from the root exactly once')
        n_cons = sum(1 for nd in model.mt_all(root) if not isinstance(nd, int)) - 1
        if n_cons != len(cons):
            raise DecodeError('%d constituent lines but %d reachable from the root' % (len(cons), n_cons))
        mts.append(MT(sid, toks, model.canon_mt(root)))
        if cons_out is not None:
            cons_out.append(sorted((k, v[3], v[4]) for k, v in cons.items()))
    return mts


# ---------------------------------------------------------------- brackets
PAREN_NAMES = {'(': 'LRB', ')': 'RRB', '[': 'LSB', ']': 'RSB', '{': 'LCB', '}': 'RCB'}
PTB_PARENS = {'-LRB-': 'LRB', '-RRB-': 'RRB', '-LSB-': 'LSB', '-RSB-': 'RSB',
              '-LCB-': 'LCB', '-RCB-': 'RCB'}

LAYOUTS = {
    # (after '(', between label and child, between pos and word, before ')', between siblings,
    #  between sentences)
    'tight': ('', '', ' ', '', '', '\n'),
    'spaced': ('', ' ', ' ', '', ' ', '\n'),
    'airy': (' ', ' ', '  ', ' ', ' ', '\n\n'),
    'indented': ('', '\n  ', '\t', '', '\n  ', '\n'),
    'oneline': ('', ' ', ' ', '', ' ', ' '),
}


def label_with_edge(label, edge, gf=None):
    if gf and edge is not None and not edge.startswith('-'):
        return label + gf + edge
    return label


def encode_brackets(mts, layout='tight', empty_root=False, emptypos=False, trailing_newline=True,
                    gf=None, lead='', between=''):
    """gf: separator string -> constituent labels are written as LABEL<sep>EDGE (for gf_split)."""
    a, b, c, d, e, f = LAYOUTS[layout]
    out = [lead]
    for si, mt in enumerate(mts):
        def rec(nd, is_root):
            if isinstance(nd, int):
                tok = mt.toks[nd - 1]
                if emptypos:
                    return '(' + a + tok['word'] + d + ')'
                return '(' + a + label_with_edge(tok['pos'], tok['edge'], gf) + c + tok['word'] + d + ')'
            lab = '' if (is_root and empty_root) else label_with_edge(nd[0], nd[1], gf)
            s = '(' + a + lab
            for i, k in enumerate(nd[2]):
                s += (b if i == 0 else e) + rec(k, False)
            return s + d + ')'
        out.append(rec(mt.root, True))
        out.append(between)     # text between bracket groups (a surplus closing bracket, stray words): skipped by readers
        if si < len(mts) - 1 or trailing_newline:
            out.append(f if si < len(mts) - 1 else '\n')
    return ''.join(out)


def _lex_brackets(text):
    """Tokenizer of bracketed text: list of ('(',) (')',) ('ws', s) ('tok', s)."""
    out = []
    for m in re.finditer(r'\(|\)|[%s]+|[^%s()]+' % (_WS, _WS), text):
        s = m.group(0)
        if s == '(':
            out.append(('(', s))
        elif s == ')':
            out.append((')', s))
        elif s[0] in _WS:
            out.append(('ws', s))
        else:
            out.append(('tok', s))
    return out


def decode_brackets_line(line, disco=False):
    """Strict decoder of one bracketed tree as the bracket writers must produce it:
    '(' LABEL children ')' without whitespace except the single blank between POS and word.
    Returns (root, toks) where leaves are ints in order of appearance (or the written indices if
    disco) — raises DecodeError."""
    pos = 0
    toks = []
    n = len(line)

    def parse():
        nonlocal pos
        if pos >= n or line[pos] != '(':
            raise DecodeError('expected ( at column %d of %r' % (pos, line))
        pos += 1
        m = re.compile(r'[^%s()]*' % _WS).match(line, pos)
        label = m.group(0)
        pos = m.end()
        if pos < n and line[pos] == ' ':
            pos += 1
            m = re.compile(r'[^%s()]+' % _WS).match(line, pos)
            if not m:
                raise DecodeError('expected a word at column %d of %r' % (pos, line))
            word = m.group(0)
            pos = m.end()
            if pos >= n or line[pos] != ')':
                raise DecodeError('expected ) after word at column %d of %r' % (pos, line))
            pos += 1
            toks.append({'word': word, 'pos': label})
            return len(toks)
        kids = []
        while pos < n and line[pos] == '(':
            kids.append(parse())
        if not kids:
            raise DecodeError('constituent %r without children at column %d of %r' % (label, pos, line))
        if pos >= n or line[pos] != ')':
            raise DecodeError('expected ) at column %d of %r' % (pos, line))
        pos += 1
        return (label, None, tuple(kids))
    root = parse()
    if pos != n:
        raise DecodeError('trailing text %r' % line[pos:])
    return root, toks


def decode_brackets(text):
    """Every line one tree; returns list of (root, toks)."""
    if text == '':
        return []
    if not text.endswith('\n'):
        raise DecodeError('bracket output does not end with a newline')
    return [decode_brackets_line(ln) for ln in text[:-1].split('\n')]


def decode_discobrackets(text):
    """Lines 'TREE<TAB>w1 w2 ... wn'; terminals of TREE are 1-based indices into the sentence.
    Returns list of (root with int leaves = sentence positions, toks)."""
    if text == '':
        return []
    if not text.endswith('\n'):
        raise DecodeError('discobracket output does not end with a newline')
    out = []
    for ln in text[:-1].split('\n'):
        if ln.count('\t') != 1:
            raise DecodeError('expected exactly one tab in %r' % ln)
        tree, sent = ln.split('\t')
        words = sent.split(' ')
        if any(w == '' or re.search(r'[%s()]' % _WS, w) for w in words):
            raise DecodeError('sentence part %r has empty tokens, whitespace or parentheses' % sent)
        root, toks = decode_brackets_line(tree)
        idx = []
        for t in toks:
            if not t['word'].isdigit():
                raise DecodeError('terminal %r is not an index' % t['word'])
            idx.append(int(t['word']))
        if sorted(idx) != list(range(1, len(words) + 1)):
            raise DecodeError('indices %r are not a permutation of 1..%d' % (idx, len(words)))

        def remap(nd):
            if isinstance(nd, int):
                return idx[nd - 1]
            return (nd[0], nd[1], tuple(remap(k) for k in nd[2]))
        newtoks = [None] * len(words)
        for t, i in zip(toks, idx):
            newtoks[i - 1] = {'word': words[i - 1], 'pos': t['pos']}
        out.append((model.canon_mt(remap(root)), newtoks))
    return out


def encode_discobrackets(mts, layout='tight', base=1, trailing_newline=True):
    a, b, c, d, e, _ = LAYOUTS[layout]
    out = []
    for si, mt in enumerate(mts):
        def rec(nd):
            if isinstance(nd, int):
                return '(' + a + mt.toks[nd - 1]['pos'] + c + str(nd - 1 + base) + d + ')'
            s = '(' + a + nd[0]
            for i, k in enumerate(nd[2]):
                s += (b if i == 0 else e) + rec(k)
            return s + d + ')'
        line = rec(mt.root) + '\t' + ' '.join(t['word'] for t in mt.toks)
        out.append(line + ('\n' if (si < len(mts) - 1 or trailing_newline) else ''))
    return ''.join(out)


# ---------------------------------------------------------------- TIGER-XML
def xml_attr(s):
    return '"' + (s.replace('&', '&amp;').replace('<', '&lt;').replace('>', '&gt;')
                  .replace('"', '&quot;')) + '"'


def encode_tigerxml(mts, nt_order='post', edge_order='std', attr_order='std', secedges=False,
                    id_style='plain', implicit_vroot=False, encoding='utf-8', head=False,
                    quote="double"):
    out = ['<?xml version="1.0" encoding="%s" standalone="yes"?>\n' % encoding, '<corpus id="c">\n']
    if head:
        out.append('<head><meta><name>x</name></meta><annotation><feature name="word" domain="T"/>'
                   '</annotation></head>\n')
    out.append('<body>\n')
    for mt in mts:
        # 'suffix' / 'ext': ids that contain their number but do not end in it (s42a, doc3_s57.rev): the reader
        # takes the LAST number in the id
        sid = {'plain': '%d', 's': 's%d', 'under': 's1_%d', 'suffix': 's%da', 'ext': 'doc3_s%d.rev'}[id_style] % mt.sid
        pref = '' if id_style == 'plain' else sid + '_'
        num = standard_numbering(mt.root)
        root = mt.root
        skip_root = implicit_vroot and len(root[2]) == 1
        out.append('<s id="%s">\n' % sid)
        rootid = pref + (str(num[(0,)]) if skip_root and not isinstance(root[2][0], int)
                         else ('1' if skip_root else '0'))
        out.append('<graph root="%s">\n  <terminals>\n' % rootid)
        for i, tok in enumerate(mt.toks):
            attrs = [('id', pref + str(i + 1)), ('word', tok['word']), ('lemma', tok['lemma']),
                     ('pos', tok['pos']), ('morph', tok['morph'])]
            if attr_order == 'rev':
                attrs = attrs[::-1]
            out.append('    <t ' + ' '.join('%s=%s' % (k, xml_attr(v)) for k, v in attrs) + ' />\n')
        out.append('  </terminals>\n  <nonterminals>\n')
        cons = constituent_paths(root)
        if nt_order == 'post':
            cons.sort(key=lambda p: (num[p] == 0, num[p]))
        elif nt_order == 'pre':
            pass
        elif nt_order == 'rev':
            cons.sort(key=lambda p: (num[p] == 0, num[p]), reverse=True)
        for p in cons:
            if p == () and skip_root:
                continue
            nd = node_at(root, p)
            attrs = [('id', pref + str(num[p])), ('cat', nd[0])]
            if attr_order == 'rev':
                attrs = attrs[::-1]
            out.append('    <nt ' + ' '.join('%s=%s' % (k, xml_attr(v)) for k, v in attrs) + '>\n')
            edges = []
            for i, k in enumerate(nd[2]):
                if isinstance(k, int):
                    edges.append((mt.toks[k - 1]['edge'], pref + str(k)))
                else:
                    edges.append((k[1], pref + str(num[p + (i,)])))
            if edge_order == 'rev':
                edges = edges[::-1]
            elif edge_order == 'rot' and edges:
                edges = edges[1:] + edges[:1]
            for lab, ref in edges:
                if attr_order == 'rev':
                    out.append('      <edge idref=%s label=%s />\n' % (xml_attr(ref), xml_attr(lab)))
                else:
                    out.append('      <edge label=%s idref=%s />\n' % (xml_attr(lab), xml_attr(ref)))
            if secedges and edges:
                out.append('      <secedge label="SE" idref=%s />\n' % xml_attr(edges[0][1]))
            out.append('    </nt>\n')
        out.append('  </nonterminals>\n</graph>\n</s>\n')
    out.append('</body>\n</corpus>\n')
    return ''.join(out)


def _mini_xml(text):
    """Independent minimal XML tokenizer: returns list of (tag, attrs, selfclosing/open/close).
    Enough for well-formedness of the TIGER writer output: declaration, elements with quoted
    attributes, predefined entities only, no text content except whitespace."""
    pos = 0
    out = []
    n = len(text)
    ent = {'amp': '&', 'lt': '<', 'gt': '>', 'quot': '"', 'apos': "'"}

    def unescape(v):
        def rep(m):
            name = m.group(1)
            if name.startswith('#x'):
                return chr(int(name[2:], 16))
            if name.startswith('#'):
                return chr(int(name[1:]))
            if name not in ent:
                raise DecodeError('unknown entity &%s;' % name)
            return ent[name]
        if re.search(r'&(?![#\w]+;)', v):
            raise DecodeError('bare & in attribute value %r' % v)
        if '<' in v:
            raise DecodeError('bare < in attribute value %r' % v)
        return re.sub(r'&([#\w]+);', rep, v)
    while pos < n:
        if text[pos].isspace():
            pos += 1
            continue
        if text.startswith('<?', pos):
            end = text.find('?>', pos)
            if end < 0:
                raise DecodeError('unterminated declaration')
            pos = end + 2
            continue
        if text[pos] != '<':
            raise DecodeError('text content %r at %d' % (text[pos:pos + 20], pos))
        m = re.compile(r'</([\w:.-]+)\s*>').match(text, pos)
        if m:
            out.append((m.group(1), None, 'close'))
            pos = m.end()
            continue
        m = re.compile(r'<([\w:.-]+)').match(text, pos)
        if not m:
            raise DecodeError('malformed tag at %d: %r' % (pos, text[pos:pos + 30]))
        tag = m.group(1)
        pos = m.end()
        attrs = {}
        while True:
            m = re.compile(r'\s*(/?>)').match(text, pos)
            if m:
                pos = m.end()
                out.append((tag, attrs, 'self' if m.group(1) == '/>' else 'open'))
                break
            m = re.compile(r'\s+([\w:.-]+)\s*=\s*("([^"]*)"|\'([^\']*)\')').match(text, pos)
            if not m:
                raise DecodeError('malformed attribute in <%s> at %d: %r' % (tag, pos, text[pos:pos + 40]))
            if m.group(1) in attrs:
                raise DecodeError('duplicate attribute %s' % m.group(1))
            val = m.group(3) if m.group(3) is not None else m.group(4)
            attrs[m.group(1)] = unescape(val)
            pos = m.end()
    # nesting
    stack = []
    for tag, attrs, kind in out:
        if kind == 'open':
            stack.append(tag)
        elif kind == 'close':
            if not stack or stack[-1] != tag:
                raise DecodeError('</%s> does not close <%s>' % (tag, stack[-1] if stack else None))
            stack.pop()
    if stack:
        raise DecodeError('unclosed elements %r' % stack)
    return out


def _xml_text(data):
    """bytes of an XML document -> str, using BOM / declared encoding (default utf-8)."""
    if data[:2] in (b'\xff\xfe', b'\xfe\xff'):
        return data.decode('utf-16')
    m = re.match(br'<\?xml[^>]*encoding=["\']([A-Za-z0-9._-]+)["\']', data)
    enc = m.group(1).decode('ascii') if m else 'utf-8'
    try:
        return data.decode(enc)
    except (UnicodeDecodeError, LookupError) as e:
        raise DecodeError('cannot decode the document as %s: %s' % (enc, e))


def decode_tigerxml(text):
    """Decode the TIGER-XML writer's output with xml.etree AND the independent tokenizer (both
    must agree on every attribute).  `text` may be str or the raw bytes of a file.  Returns list of MT."""
    if isinstance(text, bytes):
        raw = text
        text = _xml_text(raw)
    else:
        raw = re.sub(r"^<\?xml[^>]*\?>", '', text).encode('utf-8')
    try:
        root = ET.fromstring(raw)
    except ET.ParseError as e:
        raise DecodeError('not well-formed XML: %s' % e)
    toks2 = _mini_xml(text)
    flat_et = [(el.tag, dict(el.attrib)) for el in root.iter()]
    flat_mini = [(tag, attrs) for tag, attrs, kind in toks2 if kind != 'close']
    if flat_et != flat_mini:
        raise DecodeError('etree and the independent tokenizer disagree on elements/attributes')
    if root.tag != 'corpus' or root.find('body') is None:
        raise DecodeError('no <corpus><body>')
    mts = []
    for s in root.find('body').findall('s'):
        sid = s.get('id')
        if sid is None or not re.search(r'\d+', sid):
            raise DecodeError('<s> without numeric id')
        sid = int(re.findall(r'\d+', sid)[-1])
        g = s.find('graph')
        toks, ids = [], {}
        for i, t in enumerate(g.find('terminals').findall('t')):
            for a in ('id', 'word', 'pos'):
                if t.get(a) is None:
                    raise DecodeError('<t> lacks %s' % a)
            if t.get('id') in ids:
                raise DecodeError('duplicate id %s' % t.get('id'))
            ids[t.get('id')] = i + 1
            toks.append({'word': t.get('word'), 'pos': t.get('pos'), 'lemma': t.get('lemma'),
                         'morph': t.get('morph'), 'edge': None})
        nts = {}
        for nt in g.find('nonterminals').findall('nt'):
            if nt.get('id') in ids or nt.get('id') in nts:
                raise DecodeError('duplicate id %s' % nt.get('id'))
            nts[nt.get('id')] = nt
        parent = {}
        edge_of = {}
        for nid, nt in nts.items():
            if not nt.findall('edge'):
                raise DecodeError('<nt id=%s> has no edges' % nid)
            for e in nt.findall('edge'):
                ref = e.get('idref')
                if ref not in ids and ref not in nts:
                    raise DecodeError('idref %r does not resolve' % ref)
                if ref in parent:
                    raise DecodeError('%r has two parents' % ref)
                parent[ref] = nid
                edge_of[ref] = e.get('label')
        roots = [x for x in list(ids) + list(nts) if x not in parent]
        if len(roots) != 1:
            raise DecodeError('%d roots' % len(roots))
        if g.get('root') is not None and g.get('root') != roots[0]:
            raise DecodeError('graph root attribute %r is not the root %r' % (g.get('root'), roots[0]))

        def build(x, stack=()):
            if x in stack:
                raise DecodeError('cycle')
            if x in ids:
                toks[ids[x] - 1]['edge'] = edge_of.get(x)
                return ids[x]
            kids = [build(e.get('idref'), stack + (x,)) for e in nts[x].findall('edge')]
            return (nts[x].get('cat'), edge_of.get(x, '--'), tuple(kids))
        r = build(roots[0])
        if isinstance(r, int):
            raise DecodeError('root is a terminal')
        if sorted(model.leaves(r)) != list(range(1, len(toks) + 1)):
            raise DecodeError('not all terminals reachable')
        mts.append(MT(sid, toks, model.canon_mt(r)))
    return mts


# ---------------------------------------------------------------- terminals
def decode_terminals(text, one_per_line=False, pos=False):
    """terminals writer output -> list of sentences (list of (word, pos|None))."""
    if not text.endswith('\n') and text != '':
        raise DecodeError('no final newline')
    sents = []
    if one_per_line:
        cur = []
        for ln in text[:-1].split('\n') if text else []:
            if ln == '':
                sents.append(cur)
                cur = []
                continue
            if pos:
                if ln.count('\t') != 1:
                    raise DecodeError('expected word<TAB>pos, got %r' % ln)
                cur.append(tuple(ln.split('\t')))
            else:
                cur.append((ln, None))
        if cur:
            raise DecodeError('last sentence not terminated by an empty line')
        return sents
    for ln in text[:-1].split('\n') if text else []:
        items = ln.split(' ')
        if items and items[-1] == '':
            items.pop()
        sent = []
        for it in items:
            if it == '':
                raise DecodeError('double blank in %r' % ln)
            if pos:
                if '/' not in it:
                    raise DecodeError('no /POS in %r' % it)
                w, p = it.rsplit('/', 1)
                sent.append((w, p))
            else:
                sent.append((it, None))
        sents.append(sent)
    return sents
