"""Large probes (DESIGN.md §3.8, thirteenth wave): a fixed list of *long* trees (300 tokens, nodes with
280-300 children, more than 500 constituents) and *deep* trees (600-700 nested levels), run through the
operation of every property with oracles that are written without recursion.

They do for int identity / small-int caching (`is` on numbers above 256), for `zip` against a bounded range and
for newly introduced recursion what the size probes (11-13 tokens) and the volume probes (10^5 tokens) do for
their thresholds: enumerated like everything else, reported as outside the exhaustive bound, no coverage claim.
Everything here runs under the interpreter's default recursion limit (1000): the unchanged library handles
nesting of about 980 levels, so a probe of 600-700 levels is a legal input on which the library must work.

A probe is a flat specification (Spec): constituents with parent indices, tokens with parent indices.  All
expected values are computed from the specification by loops over index lists; live trees are read by loops with
an explicit stack.  main.py appends one chunk {'kind': 'large'} per probe function to every property's plan.
"""
import os
import io
import sys
import gzip

from .bridge import T, quiet, monitor, _fresh
from .runner import Result, scratch

from trees import transform, treeinput, treeoutput, treeanalysis, grammar, transitions  # noqa: E402


# ----------------------------------------------------------------------------------------------- specs
class Spec(object):
    def __init__(self, name, sid=1):
        self.name = name
        self.sid = sid
        self.cons = []      # (label, edge, parent index or None); index 0 is the root; parents come first
        self.toks = []      # (word, pos, edge, parent index); token i+1

    def node(self, label, parent=None, edge='--'):
        self.cons.append((label, edge, parent))
        return len(self.cons) - 1

    def tok(self, parent, word=None, pos=None, edge='--'):
        n = len(self.toks) + 1
        self.toks.append((word or 'w%d' % n, pos or 'P%d' % (n % 7), edge, parent))
        return n

    def copy(self, name=None):
        s = Spec(name or self.name, self.sid)
        s.cons, s.toks = list(self.cons), list(self.toks)
        return s

    def n(self):
        return len(self.toks)

    def depths(self):
        d = []
        for (_, _, p) in self.cons:
            d.append(0 if p is None else d[p] + 1)
        return d

    def spans(self):
        """per constituent [min, max, count] of its tokens."""
        sp = [[10 ** 9, 0, 0] for _ in self.cons]
        for i, (_, _, _, p) in enumerate(self.toks):
            s = sp[p]
            s[0], s[1], s[2] = min(s[0], i + 1), max(s[1], i + 1), s[2] + 1
        for i in range(len(self.cons) - 1, 0, -1):
            p = self.cons[i][2]
            a, b = sp[i], sp[p]
            b[0], b[1], b[2] = min(a[0], b[0]), max(a[1], b[1]), a[2] + b[2]
        return sp

    def yields(self):
        ys = [set() for _ in self.cons]
        for i, (_, _, _, p) in enumerate(self.toks):
            ys[p].add(i + 1)
        for i in range(len(self.cons) - 1, 0, -1):
            ys[self.cons[i][2]] |= ys[i]
        return ys

    def kids(self):
        """per constituent the ordered list of ('c', index) / ('t', number), by leftmost token."""
        sp = self.spans()
        ks = [[] for _ in self.cons]
        for i in range(1, len(self.cons)):
            ks[self.cons[i][2]].append((sp[i][0], 'c', i))
        for i, (_, _, _, p) in enumerate(self.toks):
            ks[p].append((i + 1, 't', i + 1))
        return [[(k, x) for (_, k, x) in sorted(l)] for l in ks]

    def sig(self, edges=True):
        d, sp = self.depths(), self.spans()
        cons = sorted((d[i], lab, ed if edges else None, sp[i][0], sp[i][1], sp[i][2])
                      for i, (lab, ed, _) in enumerate(self.cons))
        toks = [(i + 1, w, p, ed if edges else None, self.cons[par][0], d[par])
                for i, (w, p, ed, par) in enumerate(self.toks)]
        return cons, toks

    def gap_degrees(self):
        out = []
        for y in self.yields():
            ys = sorted(y)
            out.append(sum(1 for a, b in zip(ys, ys[1:]) if b != a + 1))
        return out


def ibuild(spec, heads=False):
    """Library tree from a specification (Tree(), .children, .parent, .data only; strings of their own)."""
    nodes = []
    for (lab, ed, p) in spec.cons:
        t = T.Tree(T.make_node_data())
        t.data['label'], t.data['edge'] = _fresh(lab), _fresh(ed)
        t.data['morph'], t.data['lemma'] = _fresh('--'), _fresh('--')
        nodes.append(t)
    leaves = []
    for i, (w, pos, ed, p) in enumerate(spec.toks):
        t = T.Tree(T.make_node_data())
        t.data.update({'word': _fresh(w), 'label': _fresh(pos), 'edge': _fresh(ed), 'morph': _fresh('--'),
                       'lemma': _fresh('--'), 'num': i + 1})
        leaves.append(t)
    for i, kl in enumerate(spec.kids()):
        for (k, x) in kl:
            c = nodes[x] if k == 'c' else leaves[x - 1]
            c.parent = nodes[i]
            nodes[i].children.append(c)
    nodes[0].data['sid'] = spec.sid
    return nodes[0]


def walk(t, limit=20000):
    """[(node, parent index, depth)] in preorder, explicit stack."""
    out, stack = [], [(t, -1, 0)]
    while stack:
        x, p, d = stack.pop()
        out.append((x, p, d))
        if len(out) > limit:
            break
        me = len(out) - 1
        for c in reversed(x.children):
            stack.append((c, me, d + 1))
    return out


def tree_sig(t, edges=True):
    w = walk(t)
    sp = [[10 ** 9, 0, 0] for _ in w]
    for i in range(len(w) - 1, -1, -1):
        x, p, d = w[i]
        if not x.children:
            n = x.data['num']
            sp[i] = [n, n, 1]
        if p >= 0:
            a, b = sp[i], sp[p]
            b[0], b[1], b[2] = min(a[0], b[0]), max(a[1], b[1]), a[2] + b[2]
    cons = sorted((d, x.data.get('label'), x.data.get('edge') if edges else None, sp[i][0], sp[i][1], sp[i][2])
                  for i, (x, p, d) in enumerate(w) if x.children)
    toks = sorted((x.data['num'], x.data.get('word'), x.data.get('label'), x.data.get('edge') if edges else None,
                   w[p][0].data.get('label') if p >= 0 else None, d - 1)
                  for i, (x, p, d) in enumerate(w) if not x.children)
    return cons, toks


def sig_diff(exp, got):
    if exp == got:
        return ''
    for part, (a, b) in zip(('constituents (depth, label, edge, first, last, tokens)',
                             'tokens (number, word, tag, edge, parent label, parent depth)'), zip(exp, got)):
        if a != b:
            sa, sb = set(a), set(b)
            return '%s: missing %r, unexpected %r (%d expected, %d found)' % (
                part, sorted(sa - sb)[:3], sorted(sb - sa)[:3], len(a), len(b))
    return 'differs'


def tree_yields(t):
    """[(node, set of token numbers)] for the constituents, no recursion."""
    w = walk(t)
    ys = [set() for _ in w]
    for i in range(len(w) - 1, -1, -1):
        x, p, d = w[i]
        if not x.children:
            ys[i].add(x.data['num'])
        if p >= 0:
            ys[p] |= ys[i]
    return [(w[i][0], ys[i]) for i in range(len(w)) if w[i][0].children]


def labels_of(t):
    return sorted(str(x.data.get('label')) for (x, p, d) in walk(t) if x.children)


def token_seq(t):
    return sorted((x.data.get('num'), x.data.get('word'), x.data.get('label')) for (x, p, d) in walk(t) if not x.children)


# ----------------------------------------------------------------------------------------------- probes
def long_gap():
    """300 tokens; D = {256..262, 273..280} is discontinuous, tokens 265 and 266 hang below the root inside
    its gap (two consecutive root children beyond position 256)."""
    s = Spec('long-gap')
    r = s.node('VROOT')
    S = s.node('S', r)
    A, D, B, C, E = s.node('Aa', S, 'NK'), s.node('Dd', S, 'HD'), s.node('Bb', S, 'NK'), s.node('Cc', S, 'NK'), s.node('Ee', S, 'NK')
    for i in range(1, 301):
        if i <= 255:
            par = A
        elif i <= 262 or 273 <= i <= 280:
            par = D
        elif i <= 264:
            par = B
        elif i <= 266:
            par = r
        elif i <= 272:
            par = C
        else:
            par = E
        s.tok(par, edge='HD' if i in (100, 258, 263, 267, 290) else 'NK')
    return s


def long_gap_attached():
    s = long_gap().copy('long-gap-attached')
    for i in (265, 266):
        w, p, e, _ = s.toks[i - 1]
        s.toks[i - 1] = (w, p, e, 1)
    return s


def long_cont():
    """300 tokens, continuous: 60 constituents of 5 tokens below S."""
    s = Spec('long-cont')
    r = s.node('VROOT')
    S = s.node('S', r)
    for g in range(60):
        np_ = s.node('Np%d' % (g % 4), S, 'HD' if g == 57 else 'NK')
        for j in range(5):
            s.tok(np_, edge='HD' if j == 2 else 'NK')
    return s


def long_quotes():
    """long-cont with quotes at positions 3, 258, 291 and 300 (the last token of the sentence)."""
    q = long_cont().copy('long-cont-quotes')
    for i in (3, 258, 291, 300):
        w, p, e, par = q.toks[i - 1]
        q.toks[i - 1] = ('"', '$(', e, par)
    return q


def wide():
    """302 tokens; W has 292 token children (1..280 and 291..302), its head (edge HD) is token 270; Z = 281..290."""
    s = Spec('wide')
    r = s.node('VROOT')
    S = s.node('S', r)
    W, Z = s.node('Ww', S, 'HD'), s.node('Zz', S, 'NK')
    for i in range(1, 303):
        par = Z if 281 <= i <= 290 else W
        s.tok(par, edge='HD' if i in (270, 281) else 'NK')
    return s


def flat(n, inner=None):
    s = Spec('flat-%d%s' % (n, '-' + inner if inner else ''))
    r = s.node('VROOT')
    par = s.node(inner, r) if inner else r
    for i in range(1, n + 1):
        s.tok(par, edge='HD' if i == n - 20 else 'NK')
    return s


def many_cons():
    """300 tokens, each below a unary node of its own, paired upwards: 599 + constituents (more than 500)."""
    s = Spec('many-cons')
    r = s.node('VROOT')
    level = [(i,) for i in range(300)]
    # build top-down: a balanced binary hierarchy over 300 leaves, every leaf below a unary node
    def split(lo, hi, parent):
        todo = [(lo, hi, parent)]
        while todo:
            lo, hi, parent = todo.pop()
            if hi - lo == 1:
                leaf_parent[lo] = s.node('Uu', parent, 'HD')
                continue
            me = s.node('Xx', parent, 'NK')
            mid = (lo + hi) // 2
            todo.append((mid, hi, me))
            todo.append((lo, mid, me))
    leaf_parent = {}
    split(0, 300, r)
    del level
    for i in range(300):
        s.tok(leaf_parent[i], edge='HD')
    return s


def deep_chain(depth=640, cont=True):
    """`depth` unary nodes between the root and X; X = (1, 2, 3) or, discontinuous, X = (1, 3) with 2 below the root."""
    s = Spec('deep-chain-%d-%s' % (depth, 'cont' if cont else 'disc'))
    r = s.node('VROOT')
    p = r
    for i in range(depth):
        p = s.node('U' + 'abc'[i % 3], p, 'HD')
    X = s.node('Xx', p, 'HD')
    s.tok(X, edge='HD')
    s.tok(X if cont else r, edge='NK')
    s.tok(X, edge='NK')
    return s


def deep_rb(n=200, comma=100):
    """Right-branching spine over n tokens with two unary nodes between consecutive levels (depth about 3n);
    token `comma` is a comma below the root."""
    s = Spec('deep-rb-%d' % n)
    r = s.node('VROOT')
    spine = {}
    p = s.node('Rr', r, 'HD')
    order = [i for i in range(1, n + 1) if i != comma]
    for idx, i in enumerate(order[:-2]):
        spine[i] = p
        u = s.node('Ua', p, 'NK')
        u = s.node('Ub', u, 'HD')
        p = s.node('Rr', u, 'HD')
    spine[order[-2]] = p
    spine[order[-1]] = p
    for i in range(1, n + 1):
        if i == comma:
            s.tok(r, word=',', pos='$,', edge='--')
        else:
            s.tok(spine[i], edge='HD' if i != order[-1] else 'NK')
    return s


def deep_rb_attached(n=200, comma=100):
    s = deep_rb(n, comma)
    target = s.toks[comma - 2][3]          # the spine node above the left neighbour spans the right neighbour too
    w, p, e, _ = s.toks[comma - 1]
    s.toks[comma - 1] = (w, p, e, target)
    s.name += '-attached'
    return s


# ----------------------------------------------------------------------------------------------- encoders
def enc_brackets(spec, disco=False):
    kids = spec.kids()
    out = []
    stack = [('c', 0)]
    while stack:
        k, x = stack.pop()
        if k == ')':
            out.append(')')
        elif k == 't':
            w, pos = spec.toks[x - 1][0], spec.toks[x - 1][1]
            out.append('(%s %s)' % (pos, x if disco else w))
        else:
            out.append('(' + spec.cons[x][0])
            stack.append((')', None))
            for kid in reversed(kids[x]):
                stack.append(kid)
    line = ''.join(out)
    if disco:
        line += '\t' + ' '.join(t[0] for t in spec.toks)
    return line + '\n'


def enc_export(spec):
    # constituents numbered from 500, deepest first (children below their parents)
    d = spec.depths()
    order = sorted(range(1, len(spec.cons)), key=lambda i: (-d[i], i))
    num = {i: 500 + k for k, i in enumerate(order)}
    num[0] = 0
    lines = ['#BOS %d' % spec.sid]
    for (w, pos, ed, p) in spec.toks:
        lines.append('%s\t\t\t%s\t\t\t--\t\t\t%s\t\t\t%d' % (w, pos, ed, num[p]))
    for i in order:
        lab, ed, p = spec.cons[i]
        lines.append('#%d\t\t\t%s\t\t\t--\t\t\t%s\t\t\t%d' % (num[i], lab, ed, num[p]))
    lines.append('#EOS %d' % spec.sid)
    return '\n'.join(lines) + '\n'


def enc_tigerxml(spec):
    kids = spec.kids()
    out = ['<?xml version="1.0" encoding="utf-8" standalone="yes"?>', '<corpus id="c">', '<body>',
           '<s id="s%d">' % spec.sid, '<graph root="s%d_n0">' % spec.sid, '  <terminals>']
    for i, (w, pos, ed, p) in enumerate(spec.toks):
        out.append('    <t id="s%d_%d" word="%s" lemma="--" pos="%s" morph="--" />' % (spec.sid, i + 1, w, pos))
    out += ['  </terminals>', '  <nonterminals>']
    for i in range(len(spec.cons) - 1, -1, -1):
        out.append('    <nt id="s%d_n%d" cat="%s">' % (spec.sid, i, spec.cons[i][0]))
        for (k, x) in kids[i]:
            if k == 'c':
                out.append('      <edge label="%s" idref="s%d_n%d" />' % (spec.cons[x][1], spec.sid, x))
            else:
                out.append('      <edge label="%s" idref="s%d_%d" />' % (spec.toks[x - 1][2], spec.sid, x))
        out.append('    </nt>')
    out += ['  </nonterminals>', '</graph>', '</s>', '</body>', '</corpus>']
    return '\n'.join(out) + '\n'


ENC = {'brackets': (enc_brackets, False), 'discobrackets': (lambda s: enc_brackets(s, True), False),
       'export': (enc_export, True), 'tigerxml': (enc_tigerxml, True)}


def write_file(name, text, gz=False):
    path = os.path.join(scratch(), name)
    if gz:
        with gzip.open(path, 'wb') as f:
            f.write(text.encode('utf-8'))
    else:
        with open(path, 'w', encoding='utf-8') as f:
            f.write(text)
    return path


def read_with(fmt, path, **opts):
    return list(getattr(treeinput, fmt)(path, 'utf-8', quiet=True, **opts))


def write_with(fmt, tree, **opts):
    st = io.StringIO()
    getattr(treeoutput, fmt + '_begin')(st, **opts)
    getattr(treeoutput, fmt)(tree, st, **opts)
    getattr(treeoutput, fmt + '_end')(st, **opts)
    return st.getvalue()


# ----------------------------------------------------------------------------------------------- harness
class Ctx(object):
    def __init__(self, pid, res, only=None, part=None):
        self.pid, self.res, self.only, self.part = pid, res, only, part

    def case(self, name, what, fn):
        """fn() returns '' / None when fine, a description otherwise; exceptions of the library are findings."""
        if self.only is not None and self.only != [name, what]:
            return
        self.res.evals += 1
        self.res.nontrivial += 1
        try:
            with quiet():
                d = fn()
        except AssertionError:
            raise
        except Exception as e:
            d = '%s: %s' % (type(e).__name__, str(e)[:200])
        self.res.outcome((name, what, bool(d)))
        if d:
            self.res.violation('large-probe', what, {'large': [name, what]},
                               'probe %s, %s: %s' % (name, what, d),
                               'a long or deep well-formed tree (outside the exhaustive bound) is handled differently from the small ones')
        else:
            self.res.sample({'probe': name, 'checked': what})


def _fmt_applicable(spec, fmt):
    cont = max(spec.gap_degrees()) == 0
    if fmt == 'brackets' and not cont:
        return False
    if fmt == 'export' and (len(spec.cons) > 480 or spec.n() > 480):
        return False
    return True


def _read_case(spec, fmt, gz=False, **opts):
    def fn():
        enc, edges = ENC[fmt]
        path = write_file('large-%s.%s%s' % (spec.name, fmt, '.gz' if gz else ''), enc(spec), gz)
        try:
            ts = read_with(fmt, path, **opts)
        finally:
            os.unlink(path)
        if len(ts) != 1:
            return '%d trees read, 1 in the file' % len(ts)
        probs = monitor(ts[0], spec.n())
        if probs:
            return '; '.join(probs)
        return sig_diff(spec.sig(edges), tree_sig(ts[0], edges))
    return fn


def _write_case(spec, fmt):
    """the real writer, then the real reader (which the C01 probes compare with the specification)."""
    def fn():
        t = ibuild(spec)
        cont = max(spec.gap_degrees()) == 0
        try:
            text = write_with(fmt, t)
        except ValueError as e:
            if fmt == 'brackets' and not cont:
                return ''
            return 'writer refused: %s' % e
        if fmt == 'brackets' and not cont:
            return 'bracket writer accepted a discontinuous tree'
        path = write_file('large-w-%s.%s' % (spec.name, fmt), text)
        try:
            ts = read_with(fmt, path)
        finally:
            os.unlink(path)
        if len(ts) != 1:
            return '%d trees in the written file' % len(ts)
        edges = fmt in ('export', 'tigerxml')
        return sig_diff(spec.sig(edges), tree_sig(ts[0], edges))
    return fn


READ_PROBES = lambda: [long_gap(), long_cont(), wide(), many_cons(), deep_chain(640, True), deep_chain(640, False), deep_rb()]  # noqa: E731


def p_c01(cx):
    for spec in READ_PROBES():
        for fmt in ('brackets', 'discobrackets', 'export', 'tigerxml'):
            if _fmt_applicable(spec, fmt):
                cx.case(spec.name, 'read ' + fmt, _read_case(spec, fmt))
    cx.case('long-cont', 'read export.gz', _read_case(long_cont(), 'export', gz=True))


def p_c02(cx):
    for spec in READ_PROBES():
        for fmt in ('brackets', 'discobrackets', 'export', 'tigerxml'):
            if fmt == 'brackets' or _fmt_applicable(spec, fmt):
                cx.case(spec.name, 'write ' + fmt, _write_case(spec, fmt))


def p_c03(cx):
    from . import cli

    def conv(spec, chain):
        def fn():
            src = write_file('large-cli-%s.%s' % (spec.name, chain[0]), ENC[chain[0]][0](spec))
            cur, made = src, [src]
            for a, b in zip(chain, chain[1:]):
                dst = os.path.join(scratch(), 'large-cli-%s-%d.%s' % (spec.name, len(made), b))
                st, out, err, exc = cli.run(['transform', cur, dst, '--src-format', a, '--dest-format', b])
                made.append(dst)
                if st != 0:
                    for m in made:
                        if os.path.exists(m):
                            os.unlink(m)
                    return '%s -> %s: exit status %s %s' % (a, b, st, cli.describe(exc) if exc else err[-200:])
                cur = dst
            ts = read_with(chain[-1], cur)
            for m in made:
                os.unlink(m)
            if len(ts) != 1:
                return '%d trees after %s' % (len(ts), ' -> '.join(chain))
            return sig_diff(spec.sig(False), tree_sig(ts[0], False))
        return fn
    for spec in (long_cont(), deep_chain(640, True)):
        for chain in (('brackets', 'export', 'brackets'), ('brackets', 'tigerxml', 'brackets'), ('discobrackets', 'tigerxml', 'discobrackets')):
            if all(_fmt_applicable(spec, f) for f in chain):
                cx.case(spec.name, 'convert ' + ' -> '.join(chain), conv(spec, chain))
    cx.case('long-gap', 'convert discobrackets -> export -> discobrackets', conv(long_gap(), ('discobrackets', 'export', 'discobrackets')))
    cx.case('deep-rb-200', 'convert discobrackets -> tigerxml -> discobrackets', conv(deep_rb(), ('discobrackets', 'tigerxml', 'discobrackets')))


def _program(spec, steps, check):
    def fn():
        t = ibuild(spec)
        toks, labs = token_seq(t), labels_of(t)
        for name, kw in steps:
            t = getattr(transform, name)(t, **kw)
            probs = monitor(t, spec.n())
            if probs:
                return 'after %s: %s' % (name, '; '.join(probs))
            now = token_seq(t)
            if name == 'collapse_unary_chains':           # tags are concatenated with the collapsed labels
                now, was = [(a, b) for (a, b, c) in now], [(a, b) for (a, b, c) in toks]
            else:
                was = toks
            if now != was:
                return 'after %s the token sequence is changed' % name
        return check(t, labs)
    return fn


def _same_labels(t, labs):
    got = labels_of(t)
    return '' if got == labs else 'constituent labels changed: %d before, %d after' % (len(labs), len(got))


def _arity2_and_labels(t, labs):
    w = walk(t)
    wide_ = [x.data.get('label') for (x, p, d) in w if len(x.children) > 2]
    if wide_:
        return 'nodes with more than two children after binarize: %r' % wide_[:3]
    got = sorted(l for l in labels_of(t) if not l.startswith('@'))
    return '' if got == labs else 'labels other than the @-labels changed'


PIPE = [('root_attach', {}), ('negra_mark_heads', {}), ('boyd_split', {}), ('raising', {})]


def p_c04(cx):
    for spec in (long_gap(), wide(), long_cont(), deep_chain(640, False), deep_rb()):
        cx.case(spec.name, 'root_attach, negra_mark_heads, boyd_split, raising', _program(spec, PIPE, _same_labels))
    for spec in (flat(750, 'FRAG'), wide(), deep_chain(640, True)):
        cx.case(spec.name, 'negra_mark_heads, binarize', _program(spec, [('negra_mark_heads', {}), ('binarize', {})], _arity2_and_labels))
        cx.case(spec.name, 'negra_mark_heads, binarize bare', _program(spec, [('negra_mark_heads', {}), ('binarize', {'bare_bin_labels': True})], _arity2_and_labels))
    for spec in (deep_chain(640, True), many_cons(), deep_rb()):
        exp = spec.sig(False)
        cx.case(spec.name, 'collapse, uncollapse', _program(spec, [('collapse_unary_chains', {}), ('uncollapse_unary_chains', {})],
                                                           lambda t, labs, exp=exp: sig_diff(exp, tree_sig(t, False))))
    for spec in (deep_rb(), long_gap(), long_quotes()):
        for op in ('punctuation_verylow', 'punctuation_symetrify', 'punctuation_root', 'add_topnode'):
            cx.case(spec.name, 'root_attach, ' + op, _program(spec, [('root_attach', {}), (op, {})],
                                                              (lambda t, labs: '') if op != 'add_topnode' else
                                                              (lambda t, labs: '' if len(labels_of(t)) == len(labs) + 1 else 'add_topnode did not add one node')))


def p_c05(cx):
    for spec in (long_cont(), deep_chain(640, True), many_cons()):
        exp = spec.sig()
        cx.case(spec.name, 'continuous tree unchanged by split + raising',
                _program(spec, PIPE, lambda t, labs, exp=exp: sig_diff(exp, tree_sig(t))))

    def continuous(t, labs):
        bad = [x.data.get('label') for (x, ys) in tree_yields(t) if max(ys) - min(ys) + 1 != len(ys)]
        if bad:
            return 'discontinuous nodes remain: %r' % bad[:3]
        return _same_labels(t, labs)
    for spec in (long_gap(), wide(), deep_chain(640, False)):
        cx.case(spec.name, 'split + raising gives a continuous tree with the same constituents', _program(spec, PIPE, continuous))

    def split_count(spec):
        def fn():
            t = ibuild(spec)
            for name, kw in PIPE[:3]:
                t = getattr(transform, name)(t, **kw)
            gd = {}
            s2 = long_gap_attached() if spec.name == 'long-gap' else spec
            for (lab, _, _), g in zip(s2.cons, s2.gap_degrees()):
                gd[lab] = gd.get(lab, 0) + g + 1
            got = {}
            for l in labels_of(t):
                got[l] = got.get(l, 0) + 1
            return '' if got == gd else 'nodes per label after boyd_split %r, expected one per block %r' % (
                sorted(got.items())[:6], sorted(gd.items())[:6])
        return fn
    for spec in (long_gap(), long_cont(), wide()):
        cx.case(spec.name, 'boyd_split makes one node per block', split_count(spec))


def _extract_case(spec):
    def fn():
        g, lex = {}, {}
        grammar.extract(ibuild(spec), g, lex)
        per = {}
        for func in g:
            for lin in g[func]:
                for vert, c in g[func][lin].items():
                    per[func[0]] = per.get(func[0], 0) + c
        exp = {}
        for (lab, _, _) in spec.cons:
            exp[lab] = exp.get(lab, 0) + 1
        if per != exp:
            return 'rule counts per label %r, nodes per label %r' % (sorted(per.items())[:5], sorted(exp.items())[:5])
        n = sum(sum(c.values()) for c in lex.values())
        if n != spec.n():
            return 'lexicon counts sum to %d, %d tokens' % (n, spec.n())
        fan, expfan = {}, {}
        for func in g:
            for lin in g[func]:
                k = (func[0], len(lin))
                fan[k] = fan.get(k, 0) + sum(g[func][lin].values())
        for (lab, _, _), gd_ in zip(spec.cons, spec.gap_degrees()):
            expfan[(lab, gd_ + 1)] = expfan.get((lab, gd_ + 1), 0) + 1
        if fan != expfan:
            return 'rules per (label, fan-out) %r, nodes per (label, number of blocks) %r' % (sorted(fan.items())[:6], sorted(expfan.items())[:6])
        ranks = sorted(len(f) - 1 for f in g)
        kids = sorted(len(k) for k in spec.kids())
        if sorted(set(ranks)) != sorted(set(kids)):
            return 'ranks of the rules %r, numbers of children %r' % (sorted(set(ranks)), sorted(set(kids)))
        return ''
    return fn


def p_c06(cx):
    if cx.part == 'deep':
        # extraction is cubic in the depth: about a minute for this one probe, in a chunk of its own
        spec = deep_chain(520, True)
        cx.case(spec.name, 'extract: counts per label, fan-outs, lexicon, ranks', _extract_case(spec))
        return
    for spec in (long_gap(), long_cont(), wide(), many_cons(), deep_chain(200, False)):
        cx.case(spec.name, 'extract: counts per label, fan-outs, lexicon, ranks', _extract_case(spec))


def _binarize_case(spec, kw, name):
    def fn():
        g, lex = {}, {}
        grammar.extract(ibuild(spec), g, lex)
        b = grammar.binarize(g, **kw)
        wide_ = [f for f in b if len(f) > 3]
        if wide_:
            return 'rule with %d right-hand-side elements after binarization' % (len(wide_[0]) - 1)
        # flow: every label occurs as often on left-hand sides as on right-hand sides (+ the root)
        lhs, rhs = {}, {}
        for f in b:
            for lin in b[f]:
                c = sum(b[f][lin].values())
                lhs[f[0]] = lhs.get(f[0], 0) + c
                for r in f[1:]:
                    rhs[r] = rhs.get(r, 0) + c
        tags = {}
        for (_, pos, _, _) in spec.toks:
            tags[pos] = tags.get(pos, 0) + 1
        for lab in set(lhs) | set(rhs):
            left = lhs.get(lab, 0) + tags.get(lab, 0)
            right = rhs.get(lab, 0) + (1 if lab == spec.cons[0][0] else 0)
            if left != right:
                return 'symbol %s: produced %d times, used %d times' % (lab, left, right)
        return ''
    return fn


MODES = [('leftright', {'reordering': grammar.reordering_none}),
         ('optimal', {'reordering': grammar.reordering_optimal}),
         ('markov v1 h2', {'reordering': grammar.reordering_none, 'markov_opts': {'v': 1, 'h': 2}})]


def p_c07(cx):
    for spec in (flat(1100), wide(), long_gap(), many_cons()):
        for name, kw in MODES if spec.name != 'flat-1100' else MODES[:1] + MODES[2:]:
            cx.case(spec.name, 'binarize %s: at most two right-hand sides, symbols balanced' % name, _binarize_case(spec, kw, name))


p_c08 = p_c07


def p_c09(cx):
    from . import cli

    def fn(spec, fmt):
        def run():
            src = write_file('large-g-%s.export' % spec.name, enc_export(spec))
            dst = os.path.join(scratch(), 'large-g-%s' % spec.name)
            st, out, err, exc = cli.run(['grammar', src, dst, 'leftright', '--src-format', 'export', '--dest-format', fmt])
            made = [os.path.join(scratch(), f) for f in os.listdir(scratch()) if f.startswith('large-g-')]
            text = {}
            for m in made:
                with open(m, encoding='utf-8') as f:
                    text[m] = f.read()
                os.unlink(m)
            if st != 0:
                return 'exit status %s %s' % (st, cli.describe(exc) if exc else err[-200:])
            gram = [v for k, v in text.items() if k.endswith('.' + fmt)]
            if not gram or not gram[0].strip():
                return 'no grammar file written'
            lexs = [v for k, v in text.items() if k.endswith('.lex')]
            words = set(l.split()[0] for l in lexs[0].split('\n') if l.strip()) if lexs else set()
            missing = set(t[0] for t in spec.toks) - words
            if missing:
                return 'words missing from the lexicon file: %r' % sorted(missing)[:3]
            return ''
        return run
    for spec in (long_cont(), wide()):
        for fmt in ('rcg', 'pmcfg'):
            cx.case(spec.name, 'grammar files ' + fmt, fn(spec, fmt))

    # words that no bracketed source can carry reach the lexicon through the library (export / TIGER-XML treebanks
    # whose brackets were not replaced): the lexicon file must list them with their tags
    def bracket_words(fmt):
        def run():
            from trees import grammaroutput
            sp = Spec('bracket-words')
            r = sp.node('VROOT')
            S = sp.node('S', r)
            for w, pos in (('(', '$('), ('w', 'x'), (':-)', 'x'), (')', '$('), ('w', 'y'), ('(', '$(')):
                sp.tok(S, word=w, pos=pos)
            g, lex = {}, {}
            grammar.extract(ibuild(sp), g, lex)
            dest = os.path.join(scratch(), 'large-bw')
            getattr(grammaroutput, fmt)(g, lex, dest, 'utf-8')
            got = {}
            with open(dest + '.lex', encoding='utf-8') as f:
                for line in f:
                    if line.strip():
                        word, _, rest = line.rstrip('\n').partition('\t')
                        fields = rest.split()
                        got[word] = dict(zip(fields[0::2], (int(x) for x in fields[1::2])))
            for fn_ in os.listdir(scratch()):
                if fn_.startswith('large-bw'):
                    os.unlink(os.path.join(scratch(), fn_))
            exp = {'(': {'$(': 2}, ')': {'$(': 1}, ':-)': {'x': 1}, 'w': {'x': 1, 'y': 1}}
            return '' if got == exp else 'lexicon file decodes to %r, expected %r' % (got, exp)
        return run
    for fmt in ('rcg', 'pmcfg'):
        cx.case('bracket-words', 'lexicon file of the %s writer' % fmt, bracket_words(fmt))


def _transitions_case(spec, system):
    def fn():
        t = ibuild(spec)
        t = transform.negra_mark_heads(t)
        t = transform.binarize(t)
        nbin = sum(1 for (x, p, d) in walk(t) if len(x.children) == 2)
        nun = sum(1 for (x, p, d) in walk(t) if len(x.children) == 1)
        labs = labels_of(t)
        terms, trans = getattr(transitions, system)(t)
        names = [str(x) for x in trans]
        again = [str(x) for x in trans]
        if names != again:
            return 'the sequence reads differently the second time'
        if [w for (w, _) in terms] != [tk[0] for tk in spec.toks]:
            return 'terminals differ from the sentence'
        shifts = sum(1 for x in names if x == 'SHIFT')
        if shifts != spec.n():
            return '%d SHIFT transitions for %d tokens' % (shifts, spec.n())
        got = sorted(x.split('-', 2)[-1] if x.startswith(('BINARY-', 'R-')) else x.split('-', 1)[-1]
                     for x in names if x.startswith(('BINARY-', 'R-', 'UNARY-', 'REDUCE-')))
        if system == 'inorder':
            return ''
        if got != labs:
            return 'labels in the transitions %r..., labels of the tree %r... (%d / %d; %d binary, %d unary nodes)' % (
                got[:3], labs[:3], len(got), len(labs), nbin, nun)
        return ''
    return fn


def p_c10(cx):
    for spec in (long_cont(), deep_chain(640, True), _rb_plain()):
        for system in ('topdown', 'gap', 'inorder'):
            cx.case(spec.name, 'transitions ' + system, _transitions_case(spec, system))
    cx.case('long-gap', 'transitions gap', _transitions_case(long_gap_attached(), 'gap'))


def _rb_plain():
    s = deep_rb(200, comma=100)
    s = deep_rb_attached(200, 100)
    s.name = 'deep-rb-200-plain'
    return s


def p_c11(cx):
    from trees import trees as TT

    def delete(spec, pos):
        def fn():
            t = ibuild(spec)
            leaf = [x for (x, p, d) in walk(t) if not x.children and x.data['num'] == pos][0]
            TT.delete_terminal(t, leaf)
            probs = monitor(t, spec.n() - 1)
            if probs:
                return '; '.join(probs)
            exp = [tk[0] for i, tk in enumerate(spec.toks) if i + 1 != pos]
            got = [w for (_, w, _) in token_seq(t)]
            return '' if exp == got else 'words after deleting token %d differ' % pos
        return fn
    for spec in (long_cont(), long_gap(), deep_rb()):
        for pos in (1, spec.n() // 2, spec.n() - 1 if spec.name != 'deep-rb-200' else 100, spec.n()):
            cx.case(spec.name, 'delete_terminal %d' % pos, delete(spec, pos))

    def punct(spec):
        def fn():
            t = ibuild(spec)
            t = transform.punctuation_delete(t)
            probs = monitor(t, spec.n() - 1)
            if probs:
                return '; '.join(probs)
            return '' if all(w != ',' for (_, w, _) in token_seq(t)) else 'the comma is still there'
        return fn
    cx.case('deep-rb-200', 'punctuation_delete', punct(deep_rb()))

    def terminal_file(spec, op, pos):
        def fn():
            path = write_file('large-terms-%s-%d.txt' % (op, pos), '%d %d NEW XX\n' % (spec.sid, pos))
            t = ibuild(spec)
            try:
                r = getattr(transform, op)(t, terminalfile=path, quiet=True)
            finally:
                os.unlink(path)
            words = [tk[0] for tk in spec.toks]
            if op == 'insert_terminals':
                words.insert(pos - 1, 'NEW')
            else:
                words[pos - 1] = 'NEW'
            probs = monitor(r, len(words))
            if probs:
                return '; '.join(probs)
            got = [w for (_, w, _) in token_seq(r)]
            return '' if got == words else 'the words after %s at position %d are not the sentence with NEW at that position' % (op, pos)
        return fn
    for op in ('insert_terminals', 'substitute_terminals'):
        for pos in (1, 258, 290, 300):
            cx.case('long-cont', '%s at position %d' % (op, pos), terminal_file(long_cont(), op, pos))


def p_c12(cx):
    for spec, exp in ((long_gap(), long_gap_attached()), (deep_rb(), deep_rb_attached()), (long_cont(), long_cont()),
                      (deep_chain(640, False), None)):
        if exp is None:
            exp = spec.copy()
            w, p, e, _ = exp.toks[1]
            exp.toks[1] = (w, p, e, len(exp.cons) - 1)
        e = exp.sig()
        cx.case(spec.name, 'root_attach', _program(spec, [('root_attach', {})], lambda t, labs, e=e: sig_diff(e, tree_sig(t))))


def p_c13(cx):
    def verylow(spec, expspec):
        e = expspec.sig()
        return _program(spec, [('root_attach', {}), ('punctuation_verylow', {})], lambda t, labs: sig_diff(e, tree_sig(t)))
    cx.case('deep-rb-200', 'root_attach, punctuation_verylow: the comma below the parent of its left neighbour', verylow(deep_rb(), deep_rb_attached()))

    def root(spec):
        e = spec.sig()
        return _program(spec, [('punctuation_root', {})], lambda t, labs: sig_diff(e, tree_sig(t)))
    cx.case('deep-rb-200', 'punctuation_root moves the comma of an inner node to the root', _program(deep_rb_attached(), [('punctuation_root', {})],
            lambda t, labs: sig_diff(deep_rb().sig(), tree_sig(t))))
    cx.case('long-cont', 'punctuation_root without punctuation', root(long_cont()))
    q = long_quotes()
    others = [x for x in q.sig()[1] if x[1] != '"']
    cx.case(q.name, 'root_attach, punctuation_symetrify: only quotes may move (quotes at 3, 258, 291 and at the end of the sentence)',
            _program(q, [('root_attach', {}), ('punctuation_symetrify', {})],
                     lambda t, labs: '' if [x for x in tree_sig(t)[1] if x[1] != '"'] == others else 'tokens other than the quotes changed their place'))
    sp = long_cont().copy('long-cont-commas')
    for i in (258, 259, 280):
        w, p, e, par = sp.toks[i - 1]
        sp.toks[i - 1] = (',', '$,', e, par)
    exp = sp.copy()
    for i in (258, 259, 280):
        w, p, e, par = exp.toks[i - 1]
        exp.toks[i - 1] = (w, p, e, 0)
    cx.case(sp.name, 'punctuation_root moves the commas at positions 258, 259, 280 to the root',
            _program(sp, [('punctuation_root', {})], lambda t, labs: sig_diff(exp.sig(), tree_sig(t))))


def p_c14(cx):
    def unbin(spec, kw):
        def check(t, labs):
            d = _arity2_and_labels(t, labs)
            if d:
                return d
            # reference un-binarizer without recursion: splice the children of every @-node into its parent
            w = walk(t)
            for (x, p, dd) in reversed(w):
                if x.children and str(x.data.get('label', '')).startswith('@') and x.parent is not None:
                    par = x.parent
                    par.children = [c for c in par.children if c is not x] + list(x.children)
                    for c in x.children:
                        c.parent = par
            return sig_diff(spec.sig(), tree_sig(t))
        return _program(spec, [('negra_mark_heads', {}), ('binarize', kw)], check)
    for spec in (flat(750, 'FRAG'), flat(1100), wide(), long_gap_attached(), deep_rb_attached()):
        cx.case(spec.name, 'binarize and un-binarize', unbin(spec, {}))
    for spec in (deep_chain(640, True), many_cons(), deep_rb_attached()):
        exp = spec.sig(False)
        cx.case(spec.name, 'collapse, uncollapse gives the tree back', _program(spec, [('collapse_unary_chains', {}), ('uncollapse_unary_chains', {})],
                                                                            lambda t, labs, exp=exp: sig_diff(exp, tree_sig(t, False))))


def p_c15(cx):
    def one_head(spec, expect=None, op=('negra_mark_heads', {})):
        def check(t, labs):
            for (x, p, d) in walk(t):
                if x.children:
                    hs = [c for c in x.children if c.data.get('head')]
                    if len(hs) != 1:
                        return 'constituent %s with %d children has %d head children' % (x.data.get('label'), len(x.children), len(hs))
                    if any('head' not in c.data for c in x.children):
                        return 'a child of %s carries no head flag' % x.data.get('label')
                    if expect and x.data.get('label') in expect and hs[0].data.get('num') != expect[x.data.get('label')]:
                        return 'head of %s is token %r, expected %d' % (x.data.get('label'), hs[0].data.get('num'), expect[x.data.get('label')])
            return ''
        return _program(spec, [op], check)
    cx.case('wide', 'negra_mark_heads: the HD child at position 270', one_head(wide(), {'Ww': 270, 'Zz': 281}))
    cx.case('flat-300', 'negra_mark_heads: the HD child at position 280', one_head(flat(300), {'VROOT': 280}))
    nk = flat(300)
    nk.name = 'flat-300-nk'
    nk.toks = [(w, p, 'NK' if 250 <= i + 1 <= 290 else '--', par) for i, (w, p, e, par) in enumerate(nk.toks)]
    cx.case(nk.name, 'negra_mark_heads: the rightmost NK child at position 290', one_head(nk, {'VROOT': 290}))
    for spec in (long_gap(), long_cont(), deep_chain(640, True), deep_rb(), many_cons()):
        cx.case(spec.name, 'negra_mark_heads: exactly one head per constituent', one_head(spec))
    sv = Spec('wide-s-vp')
    r = sv.node('VROOT')
    S = sv.node('S', r)
    for i in range(1, 301):
        c = sv.node('VP' if i == 280 else 'QQQ', S)
        sv.tok(c)
    for preset in ('ptb', 'negra'):
        cx.case(sv.name, 'mark_heads_by_rules %s: exactly one head, 300 children' % preset,
                one_head(sv, None, ('mark_heads_by_rules', {'mark_heads_preset': preset})))


def p_c16(cx):
    def gd(spec):
        def fn():
            t = ibuild(spec)
            exp = max(spec.gap_degrees())
            got = treeanalysis.gap_degree(t)
            if got != exp:
                return 'gap_degree %r, expected %d' % (got, exp)
            for (x, ys) in tree_yields(t):
                y = sorted(ys)
                e = sum(1 for a, b in zip(y, y[1:]) if b != a + 1)
                g = treeanalysis.gap_degree_node(x)
                if g != e:
                    return 'gap_degree_node(%s) = %r, expected %d' % (x.data.get('label'), g, e)
            try:
                write_with('brackets', t)
                accepted = True
            except ValueError:
                accepted = False
            if accepted != (exp == 0):
                return 'bracket writer %s a tree of gap degree %d' % ('accepted' if accepted else 'refused', exp)
            return ''
        return fn
    for spec in (long_cont(), long_gap(), long_gap_attached(), wide(), many_cons(), deep_chain(640, True), deep_chain(640, False), deep_rb()):
        cx.case(spec.name, 'gap degree of the tree and of every node, bracket writer guard', gd(spec))

    def cli_gd(spec):
        from . import cli

        def fn():
            src = write_file('large-a-%s.export' % spec.name, enc_export(spec))
            st, out, err, exc = cli.run(['treeanalysis', src, 'GapDegree', '--src-format', 'export'])
            os.unlink(src)
            if st != 0:
                return 'exit status %s %s' % (st, cli.describe(exc) if exc else err[-200:])
            exp = max(spec.gap_degrees())
            import re
            nums = re.findall(r'gap degree (\d+)[^\d]+(\d+)', out)
            if not nums:
                return ''
            trees_ = [(int(a), int(b)) for a, b in nums]
            if (exp, 1) not in trees_:
                return 'report %r does not count one tree of gap degree %d' % (out[:200], exp)
            return ''
        return fn
    for spec in (long_cont(), long_gap()):
        cx.case(spec.name, 'treeanalysis GapDegree on the command line', cli_gd(spec))


def p_c17(cx):
    from . import cli

    def split(n, spec_):
        def fn():
            one = long_cont()
            text = ''.join(enc_brackets(deep_chain(2, True)) for _ in range(n))
            src = write_file('large-split.mrg', text)
            dst = os.path.join(scratch(), 'large-split-out')
            st, out, err, exc = cli.run(['transform', src, dst, '--src-format', 'brackets', '--dest-format', 'brackets', '--split', spec_])
            parts = sorted(f for f in os.listdir(scratch()) if f.startswith('large-split-out'))
            sizes = []
            for p in parts:
                with open(os.path.join(scratch(), p), encoding='utf-8') as f:
                    sizes.append(sum(1 for l in f if l.strip()))
                os.unlink(os.path.join(scratch(), p))
            os.unlink(src)
            del one
            if st != 0:
                return 'exit status %s %s' % (st, cli.describe(exc) if exc else err[-200:])
            return '' if sum(sizes) == n and len(sizes) == len(spec_.split('_')) else 'parts of sizes %r for %d trees' % (sizes, n)
        return fn
    for n, sp in ((300, '100%'), (300, '150#_150#'), (300, '50%_50%'), (1000, '300#_rest'), (513, '257#_256#')):
        cx.case('bank-%d' % n, '--split ' + sp, split(n, sp))


def p_c18(cx):
    import resource

    def many_gz(fmt):
        def fn():
            spec = deep_chain(3, True)
            path = write_file('large-many.%s.gz' % fmt, ENC[fmt][0](spec), gz=True)
            exp = spec.sig(ENC[fmt][1])
            soft, hard = resource.getrlimit(resource.RLIMIT_NOFILE)
            used = len(os.listdir('/proc/self/fd'))
            resource.setrlimit(resource.RLIMIT_NOFILE, (min(soft, used + 60), hard))
            try:
                for i in range(200):
                    ts = read_with(fmt, path)
                    if len(ts) != 1 or tree_sig(ts[0], ENC[fmt][1]) != exp:
                        return 'read number %d of the same compressed file differs from the first' % (i + 1)
            finally:
                resource.setrlimit(resource.RLIMIT_NOFILE, (soft, hard))
                os.unlink(path)
            return ''
        return fn
    for fmt in ('export', 'brackets', 'tigerxml'):
        cx.case('many-files', '200 reads of a compressed %s file in one process (60 spare file descriptors)' % fmt, many_gz(fmt))

    def many_plain(fmt):
        def fn():
            spec = deep_chain(3, True)
            path = write_file('large-manyp.%s' % fmt, ENC[fmt][0](spec))
            exp = spec.sig(ENC[fmt][1])
            import resource as R
            soft, hard = R.getrlimit(R.RLIMIT_NOFILE)
            used = len(os.listdir('/proc/self/fd'))
            R.setrlimit(R.RLIMIT_NOFILE, (min(soft, used + 60), hard))
            try:
                for i in range(200):
                    it = getattr(treeinput, fmt)(path, 'utf-8', quiet=True)
                    first = next(it)
                    if tree_sig(first, ENC[fmt][1]) != exp:
                        return 'read number %d differs' % (i + 1)
                    it.close()
                    st = io.StringIO()
                    getattr(treeoutput, fmt)(first, st)
            finally:
                R.setrlimit(R.RLIMIT_NOFILE, (soft, hard))
                os.unlink(path)
            return ''
        return fn
    for fmt in ('export', 'brackets', 'discobrackets', 'tigerxml'):
        cx.case('many-files', '200 readers of a %s file closed after the first tree (60 spare file descriptors)' % fmt, many_plain(fmt))


def p_c19(cx):
    from trees import trees as TT

    def nav(spec):
        def fn():
            t = ibuild(spec)
            w = walk(t)
            terms = TT.terminals(t)
            if [x.data['num'] for x in terms] != list(range(1, spec.n() + 1)):
                return 'terminals() is not 1..n in order'
            for (x, ys) in tree_yields(t):
                ks = TT.children(x)
                if len(ks) != len(x.children) or set(map(id, ks)) != set(map(id, x.children)):
                    return 'children(%s) is not the child set' % x.data.get('label')
            pre = list(TT.preorder(t))
            if len(pre) != len(w) or len(set(map(id, pre))) != len(w) or pre[0] is not t:
                return 'preorder visits %d nodes of %d' % (len(pre), len(w))
            post = list(TT.postorder(t))
            if len(post) != len(w) or post[-1] is not t:
                return 'postorder visits %d nodes of %d' % (len(post), len(w))
            a, b = terms[0], terms[-1]
            exp_lca = None
            for (x, ys) in tree_yields(t):
                if 1 in ys and spec.n() in ys and (exp_lca is None or len(ys) <= len(exp_lca[1])):
                    exp_lca = (x, ys)
            got = TT.lca(a, b)
            if got is not exp_lca[0] and not (len(tree_yields_of(got, t)) == len(exp_lca[1])):
                return 'lca of the first and the last token is %s' % (got.data.get('label') if got is not None else None)
            # export numbering: 0 for the root, 500.. for the others, each once, children below parents
            treeoutput.compute_export_numbering(t)
            nums = sorted(x.data.get('num') for (x, p, d) in w if x.children and x is not t)
            if nums != list(range(500, 500 + len(nums))):
                return 'constituent numbers are not 500..%d, each once (first deviation among %r)' % (499 + len(nums), [n for n in nums if n is None or n >= 500 + len(nums)][:3] or nums[:3])
            for (x, p, d) in w:
                if x.children and p > 0 and not (w[p][0].data['num'] > x.data['num']):
                    return 'a constituent is numbered above its parent'
            return ''
        return fn
    for spec in (long_cont(), long_gap(), wide(), many_cons(), deep_chain(640, True), deep_rb()):
        cx.case(spec.name, 'terminals, children, traversals, lca, export numbering', nav(spec))

    def levels(spec):
        def fn():
            t = ibuild(spec)
            lv, rev = TT.levels(t)
            w = walk(t)
            cons = [x for (x, p, d) in w if x.children]
            n = sum(len(l) for l in lv.values())
            if n != len(cons) or len(rev) != len(cons):
                return 'levels() lists %d nodes, %d constituents' % (n, len(cons))
            # height of a constituent = 1 + the largest height among its children, computed bottom-up without recursion
            h = {}
            for (x, p, d) in reversed(w):
                h[id(x)] = 1 + max(h[id(c)] for c in x.children) if x.children else 0
            for x in cons:
                if rev.get(x) != h[id(x)] or x not in lv.get(h[id(x)], []):
                    return 'level of %s is %r, its height is %d' % (x.data.get('label'), rev.get(x), h[id(x)])
            return ''
        return fn
    for spec in (many_cons(), deep_chain(640, True), deep_rb()):
        cx.case(spec.name, 'levels: every constituent once, at its height', levels(spec))


def tree_yields_of(node, t):
    for (x, ys) in tree_yields(t):
        if x is node:
            return ys
    return set()


def p_c20(cx):
    from trees import trees as TT

    def rt(label, **kw):
        def fn():
            p = TT.parse_label(label, **kw)
            back = TT.format_label(p, **kw)
            return '' if back == label else 'format(parse(s)) differs from s (length %d)' % len(label)
        return fn
    big = '7' * 1500
    for name, lab in (('co-index of 1500 digits', 'NP-' + big), ('gap index of 1500 digits', 'NP=' + big),
                      ('both indices of 1500 digits', 'NP-SBJ=' + big + '-' + big), ('label of 1500 digits', big),
                      ('label of 3000 letters', 'N' * 3000 + '-SBJ-3'), ('300 separators', 'A' + '-b' * 300)):
        cx.case('long-label', name, rt(lab))
        cx.case('long-label', name + ', gf separator given', rt(lab, gf_separator='-'))


PROBES = {'C01': p_c01, 'C02': p_c02, 'C03': p_c03, 'C04': p_c04, 'C05': p_c05, 'C06': p_c06, 'C07': p_c07, 'C08': p_c08,
          'C09': p_c09, 'C10': p_c10, 'C11': p_c11, 'C12': p_c12, 'C13': p_c13, 'C14': p_c14, 'C15': p_c15, 'C16': p_c16,
          'C17': p_c17, 'C18': p_c18, 'C19': p_c19, 'C20': p_c20}


def plan_chunks(pid, tier):
    if pid == 'C06':
        return [{'kind': 'large'}, {'kind': 'large', 'part': 'deep'}]
    return [{'kind': 'large'}] if pid in PROBES else []


def assumption():
    return ('large probes (vt/large.py), outside the exhaustive bound and without coverage claim: sentences of 300 tokens, nodes with '
            '290-1100 children, trees with more than 500 constituents, nesting of 600-640 levels, labels of 1500 digits, 200 files '
            'read in one process with 60 spare file descriptors - under the default recursion limit, oracles written without recursion')


def run_chunk(pid, chunk, res=None, only=None):
    res = res or Result()
    sys.setrecursionlimit(1000)
    PROBES[pid](Ctx(pid, res, only, chunk.get('part')))
    return res


def replay(pid, case):
    vs = []
    for ch in plan_chunks(pid, 'quick'):
        vs += run_chunk(pid, ch, only=case['large']).violations
    return vs
