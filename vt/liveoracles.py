"""Per-property oracles evaluated in every state of the live-state pool (vt/livepool.py).

Each oracle gets a private copy `t` of the live objects of one reachable state, reads it with the harness-side
reader (bridge.extract -> model tree `mt`), computes its expectation from `mt` alone with the property's own
reference model, runs the operation under test on `t` and reports differences through bad(kind, where, detail).
Oracles are restricted to claims that hold in *every* well-formed state (conditions are stated per oracle), so
that a state produced by an unusual but legal program cannot raise a false alarm."""
import io
import pickle
import collections
from . import model, livepool
from .bridge import T, quiet, monitor, extract, mt_equal, all_nodes, raw_leaves, compare_written


def _copy(t):
    return pickle.loads(pickle.dumps(t, pickle.HIGHEST_PROTOCOL))


def _blocks(x):
    return model.blocks_of(sorted(l.data['num'] for l in raw_leaves(x)))


# ---------------------------------------------------------------- C19 navigation
def oracle_C19(t, mt, flags, bad):
    from .props import c19
    out = []
    c19.compare_live(t, mt, {'order': 'live'}, out, 'live state')
    for v in out[:5]:
        bad(v['kind'], v['where'], v['detail'])


# ---------------------------------------------------------------- C16 gap degree
def oracle_C16(t, mt, flags, bad):
    from trees import treeanalysis, treeoutput, grammar, grammaranalysis
    degs = collections.Counter()
    tdeg = 0
    for x in all_nodes(t):
        exp = len(_blocks(x)) - 1
        got = treeanalysis.gap_degree_node(x)
        if got != exp:
            bad('gap-mismatch', 'gap_degree_node', 'expected %r, got %r at node %r' % (exp, got, x.data.get('label')))
        if x.children:
            degs[exp] += 1
            tdeg = max(tdeg, exp)
            if treeanalysis.has_gaps(x) != (exp > 0):
                bad('gap-mismatch', 'has_gaps', 'expected %r at node %r' % (exp > 0, x.data.get('label')))
            blocks = [[l.data['num'] for l in b] for b in T.terminal_blocks(x)]
            if blocks != _blocks(x):
                bad('gap-mismatch', 'terminal_blocks', 'expected %r, got %r' % (_blocks(x), blocks))
    got = treeanalysis.gap_degree(t)
    if got != tdeg:
        bad('gap-mismatch', 'gap_degree', 'expected %r, got %r' % (tdeg, got))
    task = treeanalysis.GapDegree()
    task.run(t)
    if task.gaps_per_tree != {tdeg: 1} or task.gaps_per_node != dict(degs):
        bad('gap-mismatch', 'GapDegree', 'tallies %r / %r, expected %r / %r'
            % (task.gaps_per_tree, task.gaps_per_node, {tdeg: 1}, dict(degs)))
    # three notions of discontinuity agree: analysis, bracket writer, extracted grammar
    stream = io.StringIO()
    try:
        treeoutput.brackets(_copy(t), stream)
        refused = False
    except ValueError:
        refused = True
    if refused != (tdeg > 0):
        bad('gap-mismatch', 'brackets-writer-refuses', 'expected %r, got %r' % (tdeg > 0, refused))
    g = {}
    grammar.extract(_copy(t), g, {})
    cf = grammaranalysis.is_contextfree(g)
    if cf != (tdeg == 0):
        bad('gap-mismatch', 'is_contextfree(extract)', 'expected %r, got %r' % (tdeg == 0, cf))


# ---------------------------------------------------------------- C12 root_attach
def oracle_C12(t, mt, flags, bad):
    from .props import c12
    from trees import transform
    exp_root, moves = c12.ref_root_attach(mt)
    exp = model.MT(mt.sid, mt.toks, exp_root)
    r = transform.root_attach(t)
    probs = monitor(r, mt.n())
    if r is not t:
        probs.append('returned a different node than the root it was given')
    if probs:
        bad('ill-formed', 'root_attach', '; '.join(probs))
        return
    d = mt_equal(exp, extract(r), tok_fields=('word', 'pos', 'lemma', 'morph', 'edge'), edges=True, sid=True)
    if d:
        bad('attach-mismatch', 'root_attach', d)


# ---------------------------------------------------------------- C06 extraction
def oracle_C06(t, mt, flags, bad):
    from . import lcfrs
    from .props import c06
    from trees import grammar, grammaranalysis
    g, lex = {}, {}
    grammar.extract(t, g, lex)
    eg, elex = lcfrs.ref_extract([mt])
    if c06.norm(g) != eg:
        extra = {f: l for f, l in c06.norm(g).items() if eg.get(f) != l}
        missing = {f: l for f, l in eg.items() if c06.norm(g).get(f) != l}
        bad('grammar-mismatch', 'grammar.extract', 'recorded %r, expected %r' % (extra, missing))
    if {w: dict(c) for w, c in lex.items()} != {w: dict(c) for w, c in elex.items()}:
        bad('lexicon-mismatch', 'grammar.extract', 'lexicon %r, expected %r'
            % ({w: dict(c) for w, c in lex.items()}, {w: dict(c) for w, c in elex.items()}))
    # a second extraction of the same objects adds the same counts again
    grammar.extract(t, g, lex)
    eg2, _ = lcfrs.ref_extract([mt, mt])
    if c06.norm(g) != eg2:
        bad('grammar-mismatch', 'grammar.extract (second run on the same objects)', 'recorded %r, expected %r' % (c06.norm(g), eg2))


# ---------------------------------------------------------------- C02 writers
def oracle_C02(t, mt, flags, bad):
    cont = model.mt_tree_gap_degree(mt.root) == 0
    probs = compare_written(t, mt, cont)
    if probs:
        bad('written', 'treeoutput', '; '.join(probs))


# ---------------------------------------------------------------- C11 token deletion
def oracle_C11(t, mt, flags, bad):
    from .props import c11
    from .props.c13 import PUNCT
    from trees import transform
    n = mt.n()
    if n >= 2:
        for position in sorted(set([1, (n + 1) // 2, n])):
            c = _copy(t)
            exp = c11.ref_delete(mt, [position])
            leaf = [l for l in raw_leaves(c) if l.data['num'] == position][0]
            T.delete_terminal(c, leaf)
            probs = monitor(c, exp.n())
            d = '; '.join(probs) if probs else mt_equal(exp, extract(c), tok_fields=('word', 'pos', 'edge', 'lemma', 'morph'), edges=True)
            if d:
                bad('delete-mismatch', 'delete_terminal', 'position %d: %s' % (position, d))
    pos = [i + 1 for i, tk in enumerate(mt.toks) if tk['word'] in PUNCT]
    if pos and len(pos) < n:
        exp = c11.ref_delete(mt, pos)
        c = _copy(t)
        r = transform.punctuation_delete(c, quiet=True)
        probs = monitor(r, exp.n())
        if r is not c:
            probs.append('returned a different node than the root')
        d = '; '.join(probs) if probs else mt_equal(exp, extract(r), tok_fields=('word', 'pos', 'edge', 'lemma', 'morph'), edges=True)
        if d:
            bad('delete-mismatch', 'punctuation_delete', d)


# ---------------------------------------------------------------- C13 punctuation re-attachment
def oracle_C13(t, mt, flags, bad):
    """Final-state predicates of the statement on live states that have been root-attached (the documented
    prerequisite of the re-attachments), expressed over object identity as in the fresh-tree check."""
    from .props import c13
    from trees import transform
    PUNCT, PAIR = c13.PUNCT, c13.PAIR
    ops = ['punctuation_root'] + (['punctuation_verylow', 'punctuation_symetrify'] if 'ra' in flags else [])
    if not any(tk['word'] in PUNCT for tk in mt.toks):
        return
    for op in ops:
        c = _copy(t)
        nodes = all_nodes(c)
        before = {id(x): x.parent for x in nodes}
        toks = sorted(raw_leaves(c), key=lambda x: x.data['num'])
        r = getattr(transform, op)(c)
        if r is not c:
            bad('returned-other', op, 'returned a different node than the root')
        if set(id(x) for x in all_nodes(c)) != set(before):
            bad('frame', op, 'the node set of the tree changed')
            continue
        moved = [x for x in nodes if x.parent is not before[id(x)]]
        allowed = PAIR if op == 'punctuation_symetrify' else PUNCT
        for x in moved:
            if not (c13.is_tok(x) and x.data['word'] in allowed):
                bad('frame', op, 'node %r changed its parent' % (x.data.get('word') if c13.is_tok(x) else x.data.get('label')))
        now = [(x.data.get('word'), x.data.get('label'), x.data.get('num')) for x in toks]
        if now != [(tk['word'], tk['pos'], i + 1) for i, tk in enumerate(mt.toks)]:
            bad('tokens-changed', op, 'tokens are now %r' % now)
        if op == 'punctuation_verylow':
            for i in range(1, len(toks)):
                x = toks[i]
                if x.data['word'] in PUNCT and x.parent is not None:
                    same = x.parent is toks[i - 1].parent
                    allp = all(c13.is_tok(k) and k.data['word'] in PUNCT for k in x.parent.children)
                    if not same and not allp:
                        bad('verylow-placement', op, 'punctuation token %d is neither a sister of token %d nor in a punctuation-only constituent' % (i + 1, i))
        elif op == 'punctuation_root':
            for x in toks:
                if x.data['word'] in PUNCT and x.parent is not None and x.parent is not c and len(x.parent.children) != 1:
                    bad('root-placement', op, 'punctuation token %d is below %s which has %d children'
                        % (x.data['num'], x.parent.data['label'], len(x.parent.children)))
        else:
            for x in moved:
                if c13.is_tok(x) and x.parent is not None and not any(
                        k is not x and c13.is_tok(k) and k.data['word'] in PAIR for k in x.parent.children):
                    bad('symetrify-placement', op, 'token %d was moved into %s which contains no other paired punctuation'
                        % (x.data['num'], x.parent.data['label']))


# ---------------------------------------------------------------- C14 collapse / uncollapse
def oracle_C14(t, mt, flags, bad):
    """collapse_unary_chains against the reference collapser, then uncollapse back; only in states whose labels
    and tags contain no '+' (otherwise un-collapsing is not an inverse by construction)."""
    from .props import c14
    from trees import transform
    if any('+' in str(nd[0]) for nd, _ in model.mt_nodes(mt.root)) or any('+' in str(tk['pos']) for tk in mt.toks):
        return
    r = transform.collapse_unary_chains(t)
    probs = monitor(r, mt.n())
    if r is not t:
        probs.append('returned a different node')
    if probs:
        bad('ill-formed', 'collapse_unary_chains', '; '.join(probs))
        return
    exp_root, exp_pos = c14.ref_collapse(mt)
    if isinstance(exp_root, int):
        if r.children or r.data.get('label') != exp_pos[0] or r.data.get('word') != mt.toks[0]['word']:
            bad('collapse-mismatch', 'collapse_unary_chains', 'expected the single token %s/%s' % (mt.toks[0]['word'], exp_pos[0]))
    else:
        exp = model.MT(mt.sid, [dict(tk, pos=p) for tk, p in zip(mt.toks, exp_pos)], exp_root)
        d = mt_equal(exp, extract(r), tok_fields=('word', 'pos'), edges=False, sid=True)
        if d:
            bad('collapse-mismatch', 'collapse_unary_chains', d)
            return
    u = transform.uncollapse_unary_chains(r)
    probs = monitor(u, mt.n())
    if probs:
        bad('ill-formed', 'uncollapse_unary_chains', '; '.join(probs))
        return
    d = mt_equal(mt, extract(u), tok_fields=('word', 'pos'), edges=False, sid=False)
    if d:
        bad('uncollapse-mismatch', 'uncollapse_unary_chains', d)


# ---------------------------------------------------------------- C15 head marking
def oracle_C15(t, mt, flags, bad):
    """Exactly one head per constituent after each head marker, whatever marks earlier steps left behind."""
    from .props import c15
    from trees import transform
    if not t.children:
        return
    for name, params in (('negra_mark_heads', {}), ('mark_heads_by_rules', {'mark_heads_preset': 'negra'}),
                         ('mark_heads_by_rules', {'mark_heads_preset': 'ptb'})):
        c = _copy(t)
        r = getattr(transform, name)(c, **params)
        if r is not c:
            bad('returned-other', name, 'returned a different node than the root')
            continue
        c15.one_head_invariant(r, lambda kind, detail, name=name, params=params: bad(kind, '%s %s' % (name, params.get('mark_heads_preset', '')), detail))
    # NeGra rule: the child with edge label HD is the head where there is exactly one such child
    c = transform.negra_mark_heads(_copy(t))
    for x in all_nodes(c):
        if x.children:
            hd = [k for k in x.children if k.data.get('edge') == 'HD']
            if len(hd) == 1 and hd[0].data.get('head') is not True:
                bad('negra-rule', 'negra_mark_heads', 'the only HD child of %s is not the head' % x.data.get('label'))


# ---------------------------------------------------------------- C05 split + raising
def oracle_C05(t, mt, flags, bad):
    """In states where the prerequisites hold (root-attached, head-marked, not yet split): boyd_split then raising
    leaves a continuous well-formed tree with the same tokens and the same multiset of constituent labels, and
    a continuous input is not changed at all."""
    from trees import transform
    if 'split' in flags and t.children:
        # a split tree (possibly written with split decorations in between): raising removes every non-head
        # block and leaves the labels of the surviving nodes alone
        expect = collections.Counter(x.data.get('label') for x in all_nodes(t) if x.children and not (
            x.parent is not None and x.data.get('split') is True and x.data.get('head_block') is False))
        from trees import treeoutput
        for written in (False, True):
            c = _copy(t)
            where = 'raising'
            if written:
                # the split tree is written with the split decorations first (what one does to look at it), then raised
                where = 'raising after an export pass with boyd_split_marking / boyd_split_numbering'
                treeoutput.export(c, io.StringIO(), boyd_split_marking=True, boyd_split_numbering=True)
            r = transform.raising(c)
            probs = monitor(r, mt.n())
            if probs:
                bad('ill-formed', where, '; '.join(probs))
                return
            got = extract(r)
            if [(tk['word'], tk['pos']) for tk in got.toks] != [(tk['word'], tk['pos']) for tk in mt.toks]:
                bad('tokens-changed', where, 'tokens %r' % got.toks)
            got_labels = collections.Counter(nd[0] for nd, _ in model.mt_nodes(got.root))
            if got_labels != expect:
                bad('label-multiset', where, 'labels %r, expected %r' % (dict(got_labels), dict(expect)))
        return
    if not ('ra' in flags and 'heads' in flags and 'split' not in flags) or not t.children:
        return
    labels = collections.Counter(nd[0] for nd, _ in model.mt_nodes(mt.root))
    r = transform.raising(transform.boyd_split(t))
    probs = monitor(r, mt.n())
    if probs:
        bad('ill-formed', 'boyd_split+raising', '; '.join(probs))
        return
    got = extract(r)
    if [(tk['word'], tk['pos']) for tk in got.toks] != [(tk['word'], tk['pos']) for tk in mt.toks]:
        bad('tokens-changed', 'boyd_split+raising', 'tokens %r' % got.toks)
    if model.mt_tree_gap_degree(got.root) != 0:
        bad('still-discontinuous', 'boyd_split+raising', model.mt_str(got.root))
    got_labels = collections.Counter(nd[0] for nd, _ in model.mt_nodes(got.root))
    if got_labels != labels:
        bad('label-multiset', 'boyd_split+raising', 'labels %r, expected %r' % (dict(got_labels), dict(labels)))
    if model.mt_tree_gap_degree(mt.root) == 0:
        d = mt_equal(mt, got, tok_fields=('word', 'pos'), edges=False)
        if d:
            bad('continuous-changed', 'boyd_split+raising', d)


# ---------------------------------------------------------------- C10 transitions
def oracle_C10(t, mt, flags, bad):
    """The three oracles on live states (heads set by the harness from the edge labels, as in the fresh-tree check):
    the reference automaton must execute the emitted sequence and rebuild the tree.  Only states in which every
    constituent has at most one HD child (the head is then unambiguous); gap / topdown need arity <= 2, topdown /
    inorder a continuous tree."""
    from .props import c10
    from trees import transitions
    if not t.children:
        return
    for x in all_nodes(t):
        if x.children and sum(1 for k in x.children if k.data.get('edge') == 'HD') > 1:
            return
    binary = all(len(nd[2]) <= 2 for nd, _ in model.mt_nodes(mt.root))
    cont = model.mt_tree_gap_degree(mt.root) == 0
    systems = []
    if binary:
        systems.append('gap')
        if cont:
            systems.append('topdown')
    if cont:
        systems.append('inorder')
    for system in systems:
        fn, with_heads = c10.REPLAY[system]
        c = c10.set_heads(_copy(t))
        terms, trans = getattr(transitions, system)(c)
        seq = [str(x) for x in trans]
        if list(terms) != [(tk['word'], tk['pos']) for tk in mt.toks]:
            bad('sentence', 'transitions.' + system, 'returned sentence %r' % (list(terms),))
        try:
            rebuilt = fn(mt.n(), seq)
        except c10.ReplayError as e:
            bad('replay-stuck', 'transitions.' + system, '%s; sequence %s' % (e, ' '.join(seq)))
            continue
        exp = c10.expected(mt, with_heads)
        if rebuilt != exp:
            bad('replay-mismatch', 'transitions.' + system, 'sequence %s rebuilds %s, expected %s' % (' '.join(seq), c10.show(rebuilt), c10.show(exp)))


ORACLES = {'C02': oracle_C02, 'C05': oracle_C05, 'C10': oracle_C10, 'C06': oracle_C06, 'C11': oracle_C11, 'C12': oracle_C12,
           'C13': oracle_C13, 'C14': oracle_C14, 'C15': oracle_C15, 'C16': oracle_C16, 'C19': oracle_C19}


def plan_chunks(tier, parts=None):
    if tier == 'quick':
        parts = parts or 8
        return [{'kind': 'live', 'part': i, 'parts': parts, 'tier': tier, 'inits': 'quick', 'depth': 3} for i in range(parts)]
    # thorough: the small initial set one step deeper, and the larger initial set (4 tokens with a unary insertion)
    return [{'kind': 'live', 'part': i, 'parts': 16, 'tier': tier, 'inits': 'quick', 'depth': 4} for i in range(16)] + \
           [{'kind': 'live', 'part': i, 'parts': 16, 'tier': tier, 'inits': 'thorough', 'depth': 3} for i in range(16)]


ASSUMPTION = ('live-state pool (vt/livepool.py): the oracle is also evaluated in every distinct state that a BFS over live '
              'objects reaches within depth %d (quick) / %d (thorough; depth 3 from the larger initial set with unary insertions over 4 tokens) from every hierarchy over 2-4 tokens (5 provenances: '
              'API, reversed child lists, export reader, TIGER-XML reader, written once) under %d in-place operations '
              '(the 15 transformation instances of C04 with their prerequisite rules, deletion of the first / last token, '
              'export writer passes without options / with gf decorations / with split decorations, a bracket writer pass (refused for discontinuous trees), a gap-degree analysis, a grammar extraction); states are kept apart by canonical form, '
              'prerequisite flags and the set of extra node-data keys; each tree also starts in the prepared state (root_attach, negra_mark_heads done); another sentence is read with the export reader between any two steps; counted in coverage.live_states / live_transitions')
DEPTH = {'quick': 3, 'thorough': 4}


def assumption():
    return ASSUMPTION % (DEPTH['quick'], DEPTH['thorough'], 15 + len(livepool.EXTRA_OPS))


def run_chunk(pid, chunk, res):
    """One part of the pool (initial trees i with i % parts == part) under the oracle of property pid."""
    oracle = ORACLES[pid]
    tier = chunk.get('tier', 'quick')
    inits = livepool.default_inits(chunk.get('inits', tier))
    mine = [(i, m) for i, m in enumerate(inits) if i % chunk['parts'] == chunk['part']]
    counts = None
    for hist, flags, prov, t, init, counts in livepool.live_states([m for _, m in mine], chunk.get('depth', DEPTH[tier]), first=chunk['part']):
        if not t.children:
            continue
        case = {'live': {'init': init.to_json(), 'prov': prov, 'program': hist[1:]}, 'pid': pid}
        res.evals += 1
        if len(hist) > 1:
            res.nontrivial += 1
        found = []

        def bad(kind, where, detail, found=found, hist=hist, prov=prov):
            found.append((kind, where, '%s [live state: %s (provenance %s) after %s]' % (detail, hist[0], prov or 'api', hist[1:])))
        try:
            livepool.read_other()
            with livepool.short_watchdog(10.0), quiet():
                mt = extract(t)
                oracle(t, mt, flags, bad)
        except Exception as e:
            bad('exception', 'live state', '%s: %s' % (type(e).__name__, e))
        res.outcome((hist[0], tuple(hist[1:]), len(found)))
        for kind, where, detail in found[:3]:
            res.violation(kind, where, case, detail, '%s in a non-initial state: %s' % (where, kind))
    if counts and counts.get('aborted'):
        # steps of the tool did not terminate while the pool was built: this part of the pool is incomplete
        res.capped = True
        res.add_extra('live_pool_aborted_after_timeouts', 1)
    if counts:
        res.add_extra('live_states', counts['states'])
        res.add_extra('live_transitions', counts['transitions'])
    if res.evals and not res.samples:
        res.sample({'live_state': hist})
    return res


def replay(case):
    """--replay of one live-state case."""
    pid = case['pid']
    lv = case['live']
    init = model.MT.from_json(lv['init'])
    out = []
    flags = frozenset()
    for name in lv['program']:
        flags = livepool._next_flags(name, flags)
    try:
        t = livepool.replay(init, lv['prov'], lv['program'])
        with quiet():
            mt = extract(t)
            ORACLES[pid](t, mt, flags, lambda kind, where, detail: out.append(
                {'kind': kind, 'where': where, 'case': case, 'detail': detail, 'what': '%s in a non-initial state: %s' % (where, kind)}))
    except Exception as e:
        out.append({'kind': 'exception', 'where': 'live state', 'case': case, 'detail': '%s: %s' % (type(e).__name__, e),
                    'what': 'live state: exception'})
    return out
