"""Known-findings protocol (DESIGN.md §3.6).  known_findings.json is committed and
never written at run time.  Entry: {property, id, status: known|fixed, kind, where,
match: {key: value...} (all must equal the same keys of violation['case'] or of the
violation itself), what, commit?}.  Only status == 'known' suppresses."""
import os
import json

HERE = os.path.dirname(os.path.dirname(os.path.abspath(__file__)))
PATH = os.path.join(HERE, 'known_findings.json')


def load():
    if not os.path.exists(PATH):
        return []
    with open(PATH) as f:
        data = json.load(f)
    return [e for e in data.get('findings', []) if e.get('status') == 'known']


def _matches(entry, pid, v):
    if entry['property'] != pid:
        return False
    if entry.get('kind') and entry['kind'] != v['kind']:
        return False
    if entry.get('where') and entry['where'] != v['where']:
        return False
    for k, want in (entry.get('match') or {}).items():
        got = v['case'].get(k) if isinstance(v.get('case'), dict) else None
        if got != want:
            return False
    return True


def classify(pid, violations, known):
    new, counts = [], {}
    for v in violations:
        for e in known:
            if _matches(e, pid, v):
                counts[e['id']] = counts.get(e['id'], 0) + 1
                break
        else:
            new.append(v)
    matched = [(e, counts[e['id']]) for e in known if e['id'] in counts]
    return new, matched
