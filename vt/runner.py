"""Shared pieces used by every property driver: Result, scratch directory, call watchdog."""
import os
import signal
import tempfile


class LibraryTimeout(Exception):
    """A single call into the library under test has been running for more than the watchdog interval."""


_last_tick = [None]


def _library_frame(frame):
    """Outermost frame of the current stack that executes code of the repository under test."""
    repo = os.environ.get('VT_REPO', '/repo')
    found = None
    while frame is not None:
        fn = frame.f_code.co_filename
        if fn.startswith(repo + os.sep):
            found = frame
        frame = frame.f_back
    return found


def _on_tick(signum, frame):
    lib = _library_frame(frame)
    key = None if lib is None else (id(lib), lib.f_code.co_name)
    if key is not None and key == _last_tick[0]:
        _last_tick[0] = None
        raise LibraryTimeout('%s() of the library has been running for more than %s s (does not terminate?)'
                             % (lib.f_code.co_name, os.environ.get('VT_CALL_TIMEOUT') or 60))
    _last_tick[0] = key


def install_call_watchdog():
    """Worker processes: abort a library call that spans two consecutive timer ticks."""
    interval = float(os.environ.get('VT_CALL_TIMEOUT') or 60)
    try:
        signal.signal(signal.SIGALRM, _on_tick)
        signal.setitimer(signal.ITIMER_REAL, interval, interval)
    except (ValueError, AttributeError):
        pass


class StopChunk(Exception):
    def __init__(self, result):
        Exception.__init__(self, 'chunk aborted after many violations')
        self.result = result


class Result(object):
    """What a chunk reports back."""
    def __init__(self):
        self.evals = 0
        self.nontrivial = 0
        self.outcomes = set()
        self.samples = []
        self.violations = []
        self.states = 0
        self.transitions = 0
        self.traces = 0
        self.extra = {}
        self.capped = False

    def outcome(self, obj):
        if len(self.outcomes) < 200000:
            self.outcomes.add(hash(obj) & 0xffffffffffff)

    def sample(self, obj, limit=3):
        if len(self.samples) < limit:
            self.samples.append(obj)

    def violation(self, kind, where, case, detail, what=None):
        if 'LibraryTimeout' in str(detail):
            self.extra['library_timeouts'] = self.extra.get('library_timeouts', 0) + 1
            if self.extra['library_timeouts'] >= 3:
                if len(self.violations) < 400:
                    self.violations.append({'kind': kind, 'where': where, 'case': case, 'detail': detail, 'what': what or kind})
                raise StopChunk(self)       # every further case would wait for the watchdog again
        if len(self.violations) < 400:
            self.violations.append({'kind': kind, 'where': where, 'case': case,
                                    'detail': detail, 'what': what or kind})
        else:
            self.extra['violations_dropped'] = self.extra.get('violations_dropped', 0) + 1
            if self.extra['violations_dropped'] > 1500:
                # the property is broken all over this chunk: stop exploring it (reported as capped)
                raise StopChunk(self)

    def add_extra(self, key, n=1):
        self.extra[key] = self.extra.get(key, 0) + n


def _scratch_root():
    base = '/dev/shm' if os.path.isdir('/dev/shm') and os.access('/dev/shm', os.W_OK) \
        else tempfile.gettempdir()
    d = tempfile.mkdtemp(prefix='vt-', dir=base)
    return d


_SCRATCH = None


def scratch():
    """Per-process scratch directory (under the run's scratch root)."""
    global _SCRATCH
    root = os.environ['VT_SCRATCH']
    if _SCRATCH is None or not _SCRATCH.startswith(root) or not os.path.isdir(_SCRATCH):
        _SCRATCH = tempfile.mkdtemp(prefix='w%d-' % os.getpid(), dir=root)
    return _SCRATCH


