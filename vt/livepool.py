"""Live-state pool: non-initial states for the per-property oracles.

An explicit-state search (BFS, seen-set) over *live* library objects: a transition applies a real in-place
operation of the tool (the structural transformations of C04 with their prerequisite rules, deletion of the
first / last token through trees.delete_terminal, one pass of the export writer, one gap-degree analysis) to the
objects the previous step left behind - nothing is rebuilt between steps, so whatever a reader, a writer or an
earlier transformation stored on the nodes is still there.  Every distinct state is handed to the oracle of the
property that asked for the pool, together with the history that reached it: the oracle reads the state with
the harness-side reader (bridge.extract), computes its expectation from that model tree, and runs the
operation under test on a private copy of the live objects.

A state is identified by (canonical form, prerequisite flags, hidden signature), where the hidden signature is
the set of node-data keys outside the canonical fields present anywhere in the tree plus whether constituents
carry token-like numbers; so two states that differ only in what earlier steps left behind are both kept.
The search is exhaustive for the given initial trees, operation menu and depth; nothing is sampled.

Operations that fail or return an ill-formed tree end the path silently here: that is C04's business (its own
live paths report it)."""
import io
import pickle
import collections
from . import model
from .bridge import T, quiet, monitor, canon, all_nodes, raw_leaves, build_any, extract, CANON_FIELDS

PROVENANCE = (None, 'rev', 'export', 'tiger', 'written')
PREPARATION = ('root_attach', 'negra_mark_heads')


def _hidden_signature(t):
    keys = set()
    numbered = False
    for x in all_nodes(t):
        for k in x.data:
            if k not in CANON_FIELDS:
                keys.add(k)
        if x.children and 'num' in x.data:
            numbered = True
    return (tuple(sorted(keys)), numbered)


def _delete(which):
    def op(t):
        leaves = sorted(raw_leaves(t), key=lambda x: x.data['num'])
        T.delete_terminal(t, leaves[0] if which == 'first' else leaves[-1])
        return t
    return op


def _write_export(t):
    from trees import treeoutput
    treeoutput.export(t, io.StringIO())
    return t


def _write_export_marked(t):
    from trees import treeoutput
    treeoutput.export(t, io.StringIO(), boyd_split_marking=True, boyd_split_numbering=True)
    return t


def _write_export_gf(t):
    from trees import treeoutput
    treeoutput.export(t, io.StringIO(), gf=True, gf_terminals=True, export_four=True)
    return t


def _write_brackets(t):
    # refused for a discontinuous tree (ValueError): the refusal is part of the history
    from trees import treeoutput
    try:
        treeoutput.brackets(t, io.StringIO())
    except ValueError:
        pass
    return t


def _analyse(t):
    from trees import treeanalysis
    a = treeanalysis.GapDegree()
    a.run(t)
    return t


def _transitions(t):
    # a consumer pass: the in-order and gap oracles are run on the tree as it is (whatever they return or raise)
    from trees import transitions
    for system in ('inorder', 'gap'):
        try:
            terms, trans = getattr(transitions, system)(t)
            list(trans)
        except Exception:
            pass
    return t


def _extract(t):
    from trees import grammar
    grammar.extract(t, {}, {})
    return t


_TERMFILES = {}


def _terminal_file(kind):
    import os
    from .runner import scratch
    path = _TERMFILES.get(kind)
    if path is None or not os.path.exists(path):
        path = os.path.join(scratch(), 'pool-%s-%d.txt' % (kind, os.getpid()))
        with open(path, 'w', encoding='utf-8') as f:
            # entries for the pool's sentence id (7) and for a foreign sentence
            f.write('3 1 other OT\n7 1 %s XY\n' % kind)
        _TERMFILES[kind] = path
    return path


def _insert_terminal(t):
    from trees import transform
    return transform.insert_terminals(t, terminalfile=_terminal_file('ins'), quiet=True)


def _substitute_terminal(t):
    from trees import transform
    return transform.substitute_terminals(t, terminalfile=_terminal_file('sub'), quiet=True)


EXTRA_OPS = collections.OrderedDict([
    ('insert_terminal', _insert_terminal),
    ('substitute_terminal', _substitute_terminal),
    ('delete_first', _delete('first')),
    ('delete_last', _delete('last')),
    ('write_export', _write_export),
    ('write_export_marked', _write_export_marked),
    ('write_export_gf', _write_export_gf),
    ('write_brackets', _write_brackets),
    ('gap_analysis', _analyse),
    ('grammar_extract', _extract),
    ('transitions', _transitions),
])


_OTHER = [None]


def read_other():
    """Part of every live history: between any two steps two other sentences are read with one of the readers (export,
    TIGER-XML, brackets in turn), as in `trees = list(reader)` followed by work on the individual trees."""
    import os
    from .runner import scratch
    from . import codecs
    from trees import treeinput
    if _OTHER[0] is None or not all(os.path.exists(p) for p in _OTHER[0]):
        base = os.path.join(scratch(), 'other-%d' % os.getpid())
        other = [model.MT(99, model.mk_tokens(2, words=['x', ','], pos=['XY', '$,']), ('VROOT', '--', (('NP', 'HD', (1,)), 2))),
                 model.MT(100, model.mk_tokens(1, words=['y'], pos=['XY']), ('VROOT', '--', (1,)))]
        texts = {'.export': codecs.encode_export(other), '.xml': codecs.encode_tigerxml(other), '.mrg': codecs.encode_brackets(other)}
        for ext, text in texts.items():
            with open(base + ext, 'w', encoding='utf-8') as f:
                f.write(text)
        _OTHER[0] = [base + '.export', base + '.xml', base + '.mrg']
        _OTHER.append(0)
    _OTHER[1] = (_OTHER[1] + 1) % 3
    path = _OTHER[0][_OTHER[1]]
    reader = [treeinput.export, treeinput.tigerxml, treeinput.brackets][_OTHER[1]]
    with quiet():
        for _ in reader(path, 'utf-8', quiet=True):
            pass
    from .bridge import process_event
    process_event()     # ... and one other thing happens in the process (a refused call, a call with other options)


class short_watchdog(object):
    """Inside a worker (call watchdog installed): tick every `seconds` while a pool step runs, so that a step of
    the tool that does not terminate costs seconds, not minutes.  Outside a worker: nothing."""
    def __init__(self, seconds=4.0):
        self.seconds = seconds
        self.old = None

    def __enter__(self):
        import signal
        from . import runner
        if signal.getsignal(signal.SIGALRM) is runner._on_tick:
            runner._last_tick[0] = None
            self.old = signal.setitimer(signal.ITIMER_REAL, self.seconds, self.seconds)
        return self

    def __exit__(self, *exc):
        import signal
        from . import runner
        if self.old is not None:
            runner._last_tick[0] = None
            interval = self.old[1] or float(__import__('os').environ.get('VT_CALL_TIMEOUT') or 60)
            signal.setitimer(signal.ITIMER_REAL, interval, interval)
        return False


def _ops():
    from .props import c04
    from trees import transform
    ops = collections.OrderedDict()
    for name, (fname, params) in c04.OPS.items():
        ops[name] = (lambda t, fname=fname, params=params: getattr(transform, fname)(t, **params))
    ops.update(EXTRA_OPS)
    return ops


def _enabled(name, flags, t):
    from .props import c04
    bare = not t.children
    if name in EXTRA_OPS:
        if bare:
            return False
        if name == 'insert_terminal':
            return 'split' not in flags and len(raw_leaves(t)) <= 3
        if name == 'substitute_terminal':
            return True
        if name.startswith('delete_'):
            # the prerequisite marks of head marking / splitting are not maintained by a deletion
            return len(raw_leaves(t)) >= 3 and 'split' not in flags
        if name == 'write_export_marked':
            return 'split' in flags         # D5: split decorations only on trees whose nodes carry the split marks
        return True
    return c04.enabled(name, flags, bare)


def _next_flags(name, flags):
    from .props import c04
    if name in EXTRA_OPS:
        if name.startswith('delete_') or name == 'insert_terminal':
            f = set(flags)
            f.discard('heads')      # a deletion may remove the head child
            f.discard('ra')         # ... and may empty a gap or open one at the root
            return frozenset(f)
        return flags
    return c04.next_flags(name, flags)


def default_inits(tier, labels=('S', 'NP', 'VP', 'PP'), pos=('NN', 'ART', 'VVFIN', 'APPR')):
    """Model trees the pool starts from: every hierarchy over 2..3 tokens with <= 1 unary insertion and every
    hierarchy over 4 tokens (thorough: with <= 1 unary insertion), words plain and with a comma in second position;
    first child of a node is its head (edge HD)."""
    from . import sweep
    specs = [(2, 1), (3, 1), (4, 0)] if tier == 'quick' else [(2, 2), (3, 1), (4, 1)]
    out = []
    for n, u in specs:
        for c in sweep.shape_chunks([(n, u)], per_chunk=10 ** 6):
            for sh, k in sweep.iter_shapes(c):
                root = model.decorate(sh, lambda p, s: labels[(sum(p) + len(p)) % len(labels)],
                                      lambda p, s: 'HD' if p[-1] == 0 else 'NK')
                for pattern in ((0, 1, 2) if n >= 4 else (0, 1) if n >= 3 else (0,)):
                    words = ['w%d' % (i + 1) for i in range(n)]
                    tags = [pos[i % len(pos)] for i in range(n)]
                    if pattern == 1:
                        words[1] = ','
                    elif pattern == 2:
                        # an opening quote, a word, a comma, and a token tagged ART (the relc value of the pool's
                        # punctuation_symetrify_relc step)
                        words[0], words[2], tags[3] = '``', ',', 'ART'
                    tags = ['$,' if w == ',' else '$(' if w == '``' else g for w, g in zip(words, tags)]
                    toks = model.mk_tokens(n, words=words, pos=tags, edge=['HD' if i % 2 == 0 else 'NK' for i in range(n)])
                    out.append(model.MT(7, toks, root))
    return out


def live_states(inits, depth, skip_ops=(), first=0):
    """BFS over live objects.  Yields (history, flags, provenance, live tree) for every distinct state, the
    initial ones included; the live tree handed out is a private copy.  history = [initial model tree as
    string, op, op, ...]."""
    ops = _ops()
    seen = set()
    frontier = collections.deque()
    for i, mt in enumerate(inits):
        prov = PROVENANCE[(first + i) % len(PROVENANCE)]
        with quiet():
            try:
                t = build_any(mt, prov)
            except Exception:
                prov, t = None, build_any(mt, None)
        key = (canon(t), frozenset(), _hidden_signature(t))
        if key in seen:
            continue
        seen.add(key)
        frontier.append((pickle.dumps(t, pickle.HIGHEST_PROTOCOL), frozenset(), 0, (model.mt_str(mt.root, mt.toks),), prov, mt))
        # a second start state with the usual preparation already done (root_attach, negra_mark_heads): the split /
        # raising / binarize steps are then within the depth bound
        try:
            flags = frozenset()
            with short_watchdog(), quiet():
                for name in PREPARATION:
                    read_other()
                    t = ops[name](t)
                    flags = _next_flags(name, flags)
            if not monitor(t, len(mt.toks)):
                key = (canon(t), flags, _hidden_signature(t))
                if key not in seen:
                    seen.add(key)
                    frontier.append((pickle.dumps(t, pickle.HIGHEST_PROTOCOL), flags, 0,
                                     (model.mt_str(mt.root, mt.toks),) + PREPARATION, prov, mt))
        except Exception:
            pass
    counts = {'states': 0, 'transitions': 0, 'dead': 0}
    while frontier:
        blob, flags, d, hist, prov, mt = frontier.popleft()
        counts['states'] += 1
        yield list(hist), flags, prov, pickle.loads(blob), mt, counts
        if d >= depth:
            continue
        for name, fn in ops.items():
            if name in skip_ops:
                continue
            t = pickle.loads(blob)
            if not _enabled(name, flags, t):
                continue
            n_before = len(raw_leaves(t))
            counts['transitions'] += 1
            try:
                read_other()
                with short_watchdog(), quiet():
                    r = fn(t)
                n_exp = n_before - 1 if name.startswith('delete_') else n_before + 1 if name == 'insert_terminal' else n_before
                if r is None or monitor(r, n_exp):
                    counts['dead'] += 1
                    continue
            except Exception as e:
                counts['dead'] += 1
                if type(e).__name__ == 'LibraryTimeout':
                    # a step of the tool that does not terminate: not this pool's business to report (C04's live
                    # paths do), but the search cannot go on at this price - stop after the second one
                    counts['timeouts'] = counts.get('timeouts', 0) + 1
                    if counts['timeouts'] >= 2:
                        counts['aborted'] = True
                        return
                continue
            nf = _next_flags(name, flags)
            key = (canon(r), nf, _hidden_signature(r))
            if key in seen:
                continue
            seen.add(key)
            frontier.append((pickle.dumps(r, pickle.HIGHEST_PROTOCOL), nf, d + 1, hist + (name,), prov, mt))


def replay(init_mt, prov, program):
    """The live objects a history leads to (for --replay)."""
    ops = _ops()
    with quiet():
        t = build_any(init_mt, prov)
        for name in program:
            read_other()
            t = ops[name](t)
        read_other()
    return t
