"""Reference models shared by several property drivers (independent of /repo)."""
from . import model


def negra_head_index(edges):
    """Leftmost HD, else rightmost NK, else leftmost."""
    if 'HD' in edges:
        return edges.index('HD')
    if 'NK' in edges:
        return max(i for i, e in enumerate(edges) if e == 'NK')
    return 0


def child_edge(mt, k):
    return mt.toks[k - 1]['edge'] if isinstance(k, int) else k[1]


def leftmost(nd):
    return nd if isinstance(nd, int) else model.leaves(nd)[0]


def runs_of_units(units):
    """Group continuous units (model nodes/leaves), sorted by leftmost token, into maximal runs of
    adjacent token spans."""
    units = sorted(units, key=leftmost)
    runs = []
    last = None
    for u in units:
        lv = [u] if isinstance(u, int) else model.leaves(u)
        if runs and lv[0] == last + 1:
            runs[-1].append(u)
        else:
            runs.append([u])
        last = lv[-1]
    return runs


def split_raise(mt, head_index=None):
    """Reference of C05: every constituent keeps the maximal contiguous run of its (recursively
    processed) children containing its head child; everything else is handed to the constituent
    above.  head_index(node) -> index of the head child among the node's children in order of
    leftmost token (default: NeGra rule on the edges).  Returns the new canonical model root."""
    def hidx(nd):
        if head_index is not None:
            return head_index(nd)
        return negra_head_index([child_edge(mt, k) for k in nd[2]])

    def process(nd):
        if isinstance(nd, int):
            return nd, []
        nd = model.canon_mt(nd)
        h = hidx(nd)
        units, head_unit = [], None
        for i, k in enumerate(nd[2]):
            kept, expelled = process(k)
            units.append(kept)
            units.extend(expelled)
            if i == h:
                head_unit = kept
        runs = runs_of_units(units)
        keep, out = None, []
        for r in runs:
            if any(u is head_unit or u == head_unit for u in r):
                keep = r
            else:
                out.extend(r)
        return (nd[0], nd[1], tuple(keep)), out
    root, expelled = process(mt.root)
    assert not expelled, 'reference: the root expelled material'
    return model.canon_mt(root)
