"""Reference recursive-descent parser for bracketed treebank text over lexer classes
(DESIGN.md §4 C01 (a)).  Input: list of (class, text) with class in '(', ')', 'ws', 'tok'.
Output: (trees, status) with status 'ok' | ('error', index) | ('open', index of the '(' that
is never closed).  A tree is ('N', label, [children]) or ('T', label, word)."""


class Err(Exception):
    def __init__(self, index):
        Exception.__init__(self, index)
        self.index = index


class Open(Exception):
    pass


def parse(items, emptypos=False):
    trees = []
    i = 0
    n = len(items)
    while i < n:
        if items[i][0] != '(':
            i += 1          # text between groups is skipped (D3)
            continue
        try:
            tree, i = _group(items, i, True, emptypos)
        except Err as e:
            return trees, ('error', e.index)
        except Open:
            return trees, ('open', i)
        trees.append(tree)
    return trees, 'ok'


def _skip_ws(items, j):
    while j < len(items) and items[j][0] == 'ws':
        j += 1
    return j


def _need(items, j):
    if j >= len(items):
        raise Open()
    return items[j]


def _group(items, i, is_root, emptypos):
    j = _skip_ws(items, i + 1)
    cls, text = _need(items, j)
    if cls == 'tok':
        label = text
        j += 1
        cls, text = _need(items, j)
        if cls == ')':
            if not emptypos:
                raise Err(j)
            return ('T', None, label), j + 1
        if cls == 'ws':
            j += 1
            cls, text = _need(items, j)
            if cls == 'tok':
                word = text
                j = _skip_ws(items, j + 1)
                cls, text = _need(items, j)
                if cls != ')':
                    raise Err(j)
                return ('T', label, word), j + 1
            if cls == ')':
                if not emptypos:
                    raise Err(j)
                return ('T', None, label), j + 1
        if cls == '(':
            kids, j = _children(items, j, emptypos)
            return ('N', label, kids), j
        raise Err(j)
    if cls == '(' and is_root:
        kids, j = _children(items, j, emptypos)
        return ('N', None, kids), j
    raise Err(j)


def _children(items, j, emptypos):
    """items[j] is '('.  Parses child+ ws* ')' and returns (kids, index after the ')')."""
    kids = []
    while True:
        kid, j = _group(items, j, False, emptypos)
        kids.append(kid)
        j = _skip_ws(items, j)
        cls, text = _need(items, j)
        if cls == '(':
            continue
        if cls == ')':
            return kids, j + 1
        raise Err(j)
