"""Reference LCFRS machinery (independent of /repo): rule enumeration, reference extraction from
model trees, composition of binarized chains, un-binarization."""
import collections
from . import model


# ---------------------------------------------------------------- canonical rules
def canonical_lins(max_rank, max_vars):
    """All ordered, non-deleting, non-erasing linearizations in canonical form: RHS elements
    numbered by first occurrence, arguments non-empty, no two adjacent variables of the same
    element inside one argument.  Yields (rank, lin) with lin = tuple of tuples of (elem, argpos)."""
    def rec(seq, cur_arg_start, rank, nvars):
        # seq: list of symbols, None = argument boundary
        if nvars > 0 and seq[-1] is not None:
            yield rank, list(seq)
        if nvars >= max_vars:
            return
        last = seq[-1] if seq else None
        for sym in range(0, min(rank + 1, max_rank)):
            if last is not None and sym == last:
                continue
            seq.append(sym)
            yield from rec(seq, cur_arg_start, max(rank, sym + 1), nvars + 1)
            seq.pop()
        if seq and last is not None:
            seq.append(None)
            yield from rec(seq, len(seq), rank, nvars)
            seq.pop()
    for rank, seq in rec([], 0, 0, 0):
        cnt = collections.Counter()
        args, cur = [], []
        for s in seq:
            if s is None:
                args.append(tuple(cur))
                cur = []
            else:
                cur.append((s, cnt[s]))
                cnt[s] += 1
        args.append(tuple(cur))
        yield rank, tuple(args)


def fanouts(lin, rank):
    f = [0] * rank
    for arg in lin:
        for (i, j) in arg:
            f[i] = max(f[i], j + 1)
    return f


# ---------------------------------------------------------------- reference extraction
def ref_rule(mt, nd):
    """(func, lin) of model constituent nd by instantiation: every block of the node is tiled with
    blocks of its children (children in order of leftmost token)."""
    nd = model.canon_mt(nd)
    kids = nd[2]
    func = [nd[0]] + [mt.toks[k - 1]['pos'] if isinstance(k, int) else k[0] for k in kids]
    kblocks = [model.blocks_of([k] if isinstance(k, int) else model.leaves(k)) for k in kids]
    start = {}
    for i, bl in enumerate(kblocks):
        for j, b in enumerate(bl):
            start[b[0]] = (i, j, len(b))
    lin = []
    for block in model.blocks_of(model.leaves(nd)):
        arg = []
        p = block[0]
        while p <= block[-1]:
            i, j, ln = start[p]
            arg.append((i, j))
            p += ln
        assert p == block[-1] + 1
        lin.append(tuple(arg))
    return tuple(func), tuple(lin)


def ref_extract(mts):
    """Reference grammar {func: {lin: {vert: count}}} and lexicon {word: Counter(pos)}."""
    gram, lex = {}, {}
    for mt in mts:
        for nd, anc in model.mt_nodes(mt.root):
            func, lin = ref_rule(mt, nd)
            path = (nd,) + tuple(reversed(anc))
            vert = tuple('%s%d' % (a[0], model.mt_gap_degree(a) + 1) for a in path)
            gram.setdefault(func, {}).setdefault(lin, {}).setdefault(vert, 0)
            gram[func][lin][vert] += 1
        for tk in mt.toks:
            lex.setdefault(tk['word'], collections.Counter())[tk['pos']] += 1
    return gram, lex


# ---------------------------------------------------------------- composition
def compose(lin_p, lin_q):
    """P = A -> X L with lin_p over (0: X, 1: L); Q = L -> Y1..Ym with lin_q.  Returns the lin of
    A -> X Y1..Ym, or None if P uses L with another fan-out than Q defines, or not in order."""
    used = [j for arg in lin_p for (i, j) in arg if i == 1]
    if used != list(range(len(lin_q))):
        return None
    out = []
    for arg in lin_p:
        new = []
        for (i, j) in arg:
            if i == 0:
                new.append((0, j))
            else:
                new.extend((i2 + 1, j2) for (i2, j2) in lin_q[j])
        out.append(tuple(new))
    return tuple(out)


def find_chains(result, lhs, rhs_labels, is_bin):
    """All compositions of right-spine chains in `result` (a {func: {lin: ...}} dict) that rewrite
    `lhs` into exactly the multiset rhs_labels (each chain step consumes one label); yields
    (order tuple of labels, composed lin).  is_bin(label) tells binarization symbols."""
    by_lhs = {}
    for func in result:
        by_lhs.setdefault(func[0], []).append(func)

    def rec(cur, remaining, depth):
        # yields (labels, lin) for rewriting `cur` into exactly `remaining` (a Counter)
        n = sum(remaining.values())
        for func in by_lhs.get(cur, []):
            if len(func) != 3:
                continue
            a, b = func[1], func[2]
            if n == 2:
                need = collections.Counter([a, b])
                if need == remaining and not is_bin(a) and not is_bin(b):
                    for lin in result[func]:
                        yield (a, b), lin
            elif remaining.get(a, 0) > 0 and is_bin(b) and not is_bin(a) and depth < 12:
                rest = remaining - collections.Counter([a])
                for lin in result[func]:
                    for labels, sub in rec(b, rest, depth + 1):
                        c = compose(lin, sub)
                        if c is not None:
                            yield (a,) + labels, c
    yield from rec(lhs, collections.Counter(rhs_labels), 0)


def relabel_lin(lin, labels):
    """lin over indices -> lin over labels (labels distinct)."""
    return tuple(tuple((labels[i], j) for (i, j) in arg) for arg in lin)


def unbinarize(result, is_bin):
    """Reference un-binarizer for deterministic binarization: inlines every binarization symbol.
    Returns {func: {lin: count}} or raises ValueError when a symbol is not uniquely defined."""
    defs = {}
    for func in result:
        if is_bin(func[0]):
            if func[0] in defs or len(result[func]) != 1:
                raise ValueError('binarization symbol %s is defined more than once' % func[0])
            defs[func[0]] = (func, next(iter(result[func])))

    def expand(func, lin):
        # expand binarization symbols on the RHS (only the last element can be one in a right spine,
        # but any position is handled)
        changed = True
        while changed:
            changed = False
            for pos in range(1, len(func)):
                if is_bin(func[pos]):
                    if func[pos] not in defs:
                        raise ValueError('binarization symbol %s is never defined' % func[pos])
                    qfunc, qlin = defs[func[pos]]
                    idx = pos - 1
                    used = [j for arg in lin for (i, j) in arg if i == idx]
                    if used != list(range(len(qlin))):
                        raise ValueError('symbol %s used with fan-out %d, defined with %d'
                                         % (func[pos], len(used), len(qlin)))
                    m = len(qfunc) - 1
                    new = []
                    for arg in lin:
                        a = []
                        for (i, j) in arg:
                            if i < idx:
                                a.append((i, j))
                            elif i == idx:
                                a.extend((i2 + idx, j2) for (i2, j2) in qlin[j])
                            else:
                                a.append((i + m - 1, j))
                        new.append(tuple(a))
                    lin = tuple(new)
                    func = func[:pos] + qfunc[1:] + func[pos + 1:]
                    changed = True
                    break
        return func, lin
    out = {}
    for func in result:
        if is_bin(func[0]):
            continue
        for lin, verts in result[func].items():
            f2, l2 = expand(func, lin)
            out.setdefault(f2, {}).setdefault(l2, 0)
            out[f2][l2] += sum(verts.values())
    return out
