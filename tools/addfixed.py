#!/venv/bin/python
"""tools/addfixed.py Cnn[,Cmm] <commit-ish in /repo> "<what failed>" — records a repaired defect."""
import sys, json, subprocess, os
HERE = os.path.dirname(os.path.dirname(os.path.abspath(__file__)))
props, rev, what = sys.argv[1], sys.argv[2], sys.argv[3]
sha = subprocess.check_output(['git', '-C', '/repo', 'rev-parse', '--short', rev], text=True).strip()
p = os.path.join(HERE, 'known_findings.json')
d = json.load(open(p))
for pid in props.split(','):
    d['fixed'].append('fixed: property=%s %s %s' % (pid, sha, what))
json.dump(d, open(p, 'w'), indent=1)
print(d['fixed'][-1])
