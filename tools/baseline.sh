#!/bin/bash
# Runs the repository's pinned test suite (guard off) against $1 (default /repo); prints the summary line.
R="${1:-/repo}"
cd "$R" && env -u TREETOOLS_VERIF /venv/bin/python -m pytest -q -p no:cacheprovider --timeout=900 -x 2>&1 | tail -3
rm -f "$R"/tempdest_lopar.* "$R"/tempdest* 2>/dev/null
