#!/venv/bin/python
"""Own mutation runs: applies each mutant of mutants/list.json to a scratch copy of /repo (never to /repo
itself), runs the pinned test suite there, then the named checks with VT_REPO pointing at the copy, and
prints a table.  Usage: tools/mutate.py [--tier quick] [--only ID ...] [--jobs N]"""
import os
import sys
import json
import shutil
import subprocess
import tempfile
import argparse
from concurrent.futures import ThreadPoolExecutor

HERE = os.path.dirname(os.path.dirname(os.path.abspath(__file__)))


def run_one(m, tier):
    base = '/dev/shm' if os.path.isdir('/dev/shm') else tempfile.gettempdir()
    d = tempfile.mkdtemp(prefix='mut-', dir=base)
    repo = os.path.join(d, 'repo')
    try:
        subprocess.run(['git', 'clone', '-q', '/repo', repo], check=True)
        # bring over uncommitted state of /repo too (normally none)
        path = os.path.join(repo, m['file'])
        src = open(path, encoding='utf-8').read()
        if src.count(m['old']) != 1:
            return m['id'], 'PATCH-FAILED (%d matches)' % src.count(m['old']), {}, ''
        open(path, 'w', encoding='utf-8').write(src.replace(m['old'], m['new']))
        if m.get('pre'):
            pf, pold, pnew = m['pre']
            pp = os.path.join(repo, pf)
            psrc = open(pp, encoding='utf-8').read()
            if psrc.count(pold) != 1:
                return m['id'], 'PATCH-FAILED (pre: %d matches)' % psrc.count(pold), {}, ''
            open(pp, 'w', encoding='utf-8').write(psrc.replace(pold, pnew))
        env = dict(os.environ)
        env.pop('TREETOOLS_VERIF', None)
        env['PYTHONPATH'] = repo
        env['PYTHONDONTWRITEBYTECODE'] = '1'
        p = subprocess.run(['/venv/bin/python', '-m', 'pytest', '-q', '-x', '-p', 'no:cacheprovider',
                            '--timeout=900'], cwd=repo, env=env, capture_output=True, text=True)
        tests = p.stdout.strip().split('\n')[-1]
        # make sure the copy (not /repo) was tested
        tests_ok = p.returncode == 0
        results = {}
        for pid in m['checks']:
            env2 = dict(os.environ)
            env2['VT_REPO'] = repo
            env2['VT_EVIDENCE_DIR'] = os.path.join(d, 'ev')
            env2['VT_REPLAY_DIR'] = os.path.join(d, 'rp')
            env2['VT_JOBS'] = str(m.get('jobs', 4))
            q = subprocess.run([os.path.join(HERE, 'check'), pid, '--tier', tier], env=env2,
                               capture_output=True, text=True, cwd=HERE)
            first = [l for l in q.stdout.split('\n') if l.startswith('  kind=')][:1]
            results[pid] = ('DETECTED' if q.returncode == 1 else 'missed' if q.returncode == 0
                            else 'HARNESS-ERROR') + (' ' + first[0].strip()[:150] if first else '')
            if q.returncode == 2:
                results[pid] += ' ' + q.stdout[-300:]
        return m['id'], 'tests pass' if tests_ok else 'TESTS FAIL: ' + tests, results, m.get('note', '')
    finally:
        shutil.rmtree(d, ignore_errors=True)


def main():
    ap = argparse.ArgumentParser()
    ap.add_argument('--tier', default='quick')
    ap.add_argument('--only', nargs='*')
    ap.add_argument('--jobs', type=int, default=4)
    ap.add_argument('--list', default=os.path.join(HERE, 'mutants', 'list.json'))
    args = ap.parse_args()
    muts = json.load(open(args.list))
    if args.only:
        muts = [m for m in muts if m['id'] in args.only or any(m['id'].startswith(o) for o in args.only)]
    # evidence files are rewritten by the checks; keep the real ones
    ev = os.path.join(HERE, 'evidence')
    bak = tempfile.mkdtemp(prefix='evbak-', dir='/dev/shm')
    for f in os.listdir(ev):
        shutil.copy(os.path.join(ev, f), bak)
    try:
        with ThreadPoolExecutor(args.jobs) as ex:
            for mid, tests, results, note in ex.map(lambda m: run_one(m, args.tier), muts):
                print('%-28s %-12s %s' % (mid, tests, json.dumps(results)))
                sys.stdout.flush()
    finally:
        for f in os.listdir(bak):
            shutil.copy(os.path.join(bak, f), ev)
        shutil.rmtree(bak, ignore_errors=True)
        shutil.rmtree(os.path.join(HERE, 'replays'), ignore_errors=True)


if __name__ == '__main__':
    main()
