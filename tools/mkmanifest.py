#!/venv/bin/python
"""Regenerates /verif/MANIFEST.json from the drivers that exist under vt/props/."""
import os
import sys
import json
import importlib

HERE = os.path.dirname(os.path.dirname(os.path.abspath(__file__)))
sys.path.insert(0, HERE)
os.environ.setdefault('VT_REPO', '/repo')

TEXT = {
    'C01': ('§4 C01', 'Explicit-state search of the bracket reader over every token-class sequence up to a length bound (reference recursive-descent parser as oracle) plus bounded-exhaustive decoding of encoded corpora in all four formats, layouts and reader options.'),
    'C02': ('§4 C02', 'Every tree shape up to the bound x alphabets x option subsets is written by each writer and decoded by independent decoders.'),
    'C03': ('§4 C03', 'The real command-line entry point is executed for every (source, destination) format pair and two-step chain on all small treebanks; destination files are decoded independently and by the tool itself.'),
    'C04': ('§4 C04', 'Explicit-state breadth-first search over transformation programs from every small initial tree; step invariants (well-formedness monitor, token sequence, label multiset) on every transition.'),
    'C05': ('§4 C05', 'Every discontinuous shape up to the bound x every head assignment through the real pipeline, compared with an independent set-based split-and-raise reference.'),
    'C06': ('§4 C06', 'Every small treebank is extracted and each recorded rule is re-instantiated on the tree it came from; counts compared with node/token counts.'),
    'C07': ('§4 C07', 'Every canonical LCFRS rule up to rank/variable bounds is binarized in every mode and the result composed back with a reference LCFRS composition.'),
    'C08': ('§4 C08', 'Collision-forcing treebanks (repeated rules under different parents) in every grammar mode; count conservation per nonterminal and flow conservation per symbol.'),
    'C09': ('§4 C09', 'Every grammar from the pool is written in each format and decoded with independent decoders and the tool reader; CLI path included.'),
    'C10': ('§4 C10', 'Every head-marked binary (in-order: any arity) shape with unary insertions; the emitted sequence is replayed by reference shift-reduce automata that must rebuild the tree.'),
    'C11': ('§4 C11', 'Every shape x subset of tokens being punctuation/traces x terminal files from a small index alphabet against a list-based reference editor.'),
    'C12': ('§4 C12', 'Every shape up to the bound (all mixes of root children) against a set-based reference of the documented root_attach rule.'),
    'C13': ('§4 C13', 'Every shape x punctuation assignment for the three re-attachment transformations; final-state predicates and frame condition.'),
    'C14': ('§4 C14', 'Every head-marked shape binarized and un-binarized by a reference; unary chains collapsed/uncollapsed at every position.'),
    'C15': ('§4 C15', 'Every shape x edge assignment for the NeGra heuristic; every parent category of both presets x child sequences with exactly one listed child.'),
    'C16': ('§4 C16', 'Every shape with unary insertions against set-based runs of positions; analysis tasks through API and CLI on small treebanks; agreement of the three notions of discontinuity.'),
    'C17': ('§4 C17', 'Every specification from the atom alphabet x every treebank size against exact integer arithmetic; CLI --split on small treebanks in every output format.'),
    'C18': ('§4 C18', 'Explicit-state search over process histories: every operation sequence up to the depth bound executed in one interpreter, each output compared with its fresh-process reference; concatenation and hash-seed determinism.'),
    'C19': ('§4 C19', 'Every shape up to the bound with child lists stored in several orders; every node and ordered pair of nodes compared with a set model.'),
    'C20': ('§4 C20', 'Every label string up to the length bound over a separator-rich alphabet x option subsets; round trip plus regex reference of the documented grammar.'),
}
NOTE = ('Bounded: holds for everything inside the stated bound only. Trusted base: the harness itself '
        '(model trees, independent codecs/reference models in /verif/vt, checked by ./check selftest), '
        'CPython 3.12. The implementation under /repo is executed directly as the transition function; '
        'no abstraction of it is trusted.')


def main():
    checks, na = [], []
    for i in range(1, 21):
        pid = 'C%02d' % i
        path = os.path.join(HERE, 'vt', 'props', pid.lower() + '.py')
        if not os.path.exists(path):
            na.append({'property_id': pid,
                       'reason': 'check not built yet in this round (planned, see DESIGN.md %s)' % TEXT[pid][0]})
            continue
        mod = importlib.import_module('vt.props.' + pid.lower())
        from vt import liveoracles
        text, tech = TEXT[pid][1], mod.TECHNIQUE
        if pid in liveoracles.ORACLES:
            text += (' The oracle of the property is also evaluated in every state of an explicit-state search over live '
                     'library objects under all in-place operations of the tool (live-state pool, DESIGN.md §3.7).')
            tech += '; explicit-state BFS over live objects (live-state pool) with the property oracle in every state'
        if pid == 'C04':
            text += (' Every state is also reached on live objects of five provenances along its discovery path '
                     '(live paths, DESIGN.md §3.7).')
        text += (' Every run ends with fixed large probes outside the exhaustive bound (300-token sentences, nodes with 290-1100 '
                 'children, 600-640 nested levels; DESIGN.md §3.8), enumerated like everything else, no coverage claim.')
        checks.append({
            'property_id': pid,
            'quick_cmd': './check %s --tier quick' % pid,
            'thorough_cmd': './check %s --tier thorough' % pid,
            'evidence_file': '/verif/evidence/%s.json' % pid,
            'replay_cmd_template': './check --replay {path}',
            'engine': 'vt',
            'level_claimed': {'category': mod.LEVEL, 'text': text, 'design_ref': TEXT[pid][0]},
            'level_note': NOTE,
            'technique': 'model checking: ' + tech,
        })
    hooks_path = os.path.join(HERE, 'hooks.json')
    commits = json.load(open(hooks_path))['source_commits'] if os.path.exists(hooks_path) else []
    man = {
        'version': 1,
        'setup_cmd': './check selftest',
        'hooks': {
            'guard': 'TREETOOLS_VERIF',
            'enable': 'no source hooks are needed: every observable is a return value, a stream or a file; '
                      './check exports TREETOOLS_VERIF=1 anyway',
            'baseline_off_cmd': 'cd /repo && env -u TREETOOLS_VERIF /venv/bin/python -m pytest -ra -q '
                                '-p no:cacheprovider --timeout=900 --continue-on-collection-errors',
            'source_commits': commits,
            'add_only': True,
        },
        'engines': [{'name': 'vt', 'path': '/verif/vt',
                     'serves_properties': [c['property_id'] for c in checks],
                     'kind_free_text': 'hand-written bounded-exhaustive / explicit-state explorer in Python; '
                                       'the real library code is the transition function, reference models '
                                       'are independent set-based implementations'}],
        'checks': checks,
        'notes': 'All checks run /repo\'s working tree directly (sys.path[0]=/repo, no build step, no bytecode written). '
                 'Scratch files live on /dev/shm and are removed on exit. known_findings.json lists recorded defects; '
                 'seeded/ holds property-breaking changes used to demonstrate detection.',
        'not_applicable': na,
    }
    with open(os.path.join(HERE, 'MANIFEST.json'), 'w') as f:
        json.dump(man, f, indent=1)
        f.write('\n')
    print('checks: %d, not_applicable: %d' % (len(checks), len(na)))


if __name__ == '__main__':
    main()
