#!/venv/bin/python
"""Evaluates seeded property-breaking changes produced by independent sub-agents.

For every /tmp/seed-out/<Cnn>/patch<k>.diff (or an already kept /verif/seeded/<id>/patch.diff):
  1. clone /repo HEAD into a scratch directory (never touches /repo), apply the patch;
  2. run the pinned test suite there (must pass), the demonstration on the patched copy (must exit 1)
     and on a clean clone (must exit 0);
  3. run the named checks (default: the property's own check) quick, then thorough if quick misses;
  4. with --keep, store patch.diff, demo.py and meta.json under /verif/seeded/<Cnn>-<k>/.
Usage: tools/seed_eval.py [--keep] [--tier quick|thorough|both] [--checks C01,C02] Cnn[:k] ...   |  --recheck
"""
import os
import sys
import json
import shutil
import argparse
import tempfile
import subprocess

HERE = os.path.dirname(os.path.dirname(os.path.abspath(__file__)))
OUT = '/tmp/seed-out'


def sh(cmd, **kw):
    return subprocess.run(cmd, capture_output=True, text=True, **kw)


def clone(dest):
    subprocess.run(['git', 'clone', '-q', '/repo', dest], check=True)


def run_tests(repo):
    env = dict(os.environ, PYTHONPATH=repo, PYTHONDONTWRITEBYTECODE='1')
    env.pop('TREETOOLS_VERIF', None)
    p = sh(['/venv/bin/python', '-m', 'pytest', '-q', '-p', 'no:cacheprovider', '--timeout=900'], cwd=repo, env=env)
    last = p.stdout.strip().split('\n')[-1] if p.stdout.strip() else p.stderr[-200:]
    return p.returncode == 0 and '116 passed' in last, last


def run_demo(demo, repo):
    env = dict(os.environ, PYTHONDONTWRITEBYTECODE='1')
    p = sh(['/venv/bin/python', '-W', 'ignore', demo, repo], env=env, cwd=tempfile.gettempdir())
    return p.returncode, (p.stdout + p.stderr)[-400:]


def run_check(pid, tier, repo, jobs=8):
    env = dict(os.environ, VT_REPO=repo, VT_JOBS=str(jobs), VT_EVIDENCE_DIR=os.path.join(repo, '..', 'ev'), VT_REPLAY_DIR=os.path.join(repo, '..', 'rp'))
    p = sh([os.path.join(HERE, 'check'), pid, '--tier', tier], env=env, cwd=HERE)
    first = [l.strip() for l in p.stdout.split('\n') if l.startswith('  kind=')][:1]
    status = {0: 'missed', 1: 'DETECTED', 2: 'HARNESS-ERROR'}.get(p.returncode, 'exit %d' % p.returncode)
    return status, (first[0][:300] if first else p.stdout[-300:] if p.returncode == 2 else '')


def evaluate(pid, k, patch, demo, meta, tiers, checks, keep):
    base = tempfile.mkdtemp(prefix='seed-', dir='/dev/shm')
    res = {'id': '%s-%s' % (pid, k), 'property': pid}
    try:
        clean, mut = os.path.join(base, 'clean'), os.path.join(base, 'mut')
        clone(clean)
        clone(mut)
        ap = sh(['git', '-C', mut, 'apply', '--whitespace=nowarn', patch])
        if ap.returncode != 0:
            ap = sh(['git', '-C', mut, 'apply', '--3way', '--whitespace=nowarn', patch])
        if ap.returncode != 0:
            res['status'] = 'PATCH-DOES-NOT-APPLY: ' + ap.stderr[-200:]
            return res
        ok, last = run_tests(mut)
        res['tests'] = last
        res['tests_pass'] = ok
        rc_mut, out_mut = run_demo(demo, mut)
        rc_clean, out_clean = run_demo(demo, clean)
        res['demo_on_change'] = rc_mut
        res['demo_on_clean'] = rc_clean
        res['demo_output'] = out_mut
        res['valid'] = ok and rc_mut == 1 and rc_clean == 0
        res['checks'] = {}
        for c in checks or [pid]:
            for tier in tiers:
                st, info = run_check(c, tier, mut)
                res['checks']['%s/%s' % (c, tier)] = st + (': ' + info if info else '')
                if st == 'DETECTED':
                    break
        if keep and res['valid']:
            d = os.path.join(HERE, 'seeded', res['id'])
            os.makedirs(d, exist_ok=True)
            shutil.copy(patch, os.path.join(d, 'patch.diff'))
            shutil.copy(demo, os.path.join(d, 'demo.py'))
            m = json.load(open(meta)) if meta and os.path.exists(meta) else {}
            m.update({'property': pid, 'what_was_run': {
                'tests_on_change': last, 'demo_on_change_exit': rc_mut, 'demo_on_clean_exit': rc_clean,
                'checks': res['checks'], 'repo_head': sh(['git', '-C', '/repo', 'rev-parse', '--short', 'HEAD']).stdout.strip()}})
            json.dump(m, open(os.path.join(d, 'meta.json'), 'w'), indent=1)
        return res
    finally:
        shutil.rmtree(base, ignore_errors=True)


def main():
    ap = argparse.ArgumentParser()
    ap.add_argument('items', nargs='*')
    ap.add_argument('--keep', action='store_true')
    ap.add_argument('--tier', default='both')
    ap.add_argument('--checks', default='')
    ap.add_argument('--recheck', action='store_true', help='re-run the kept seeds under /verif/seeded')
    ap.add_argument('--out', default=OUT, help='directory with <Cnn>/patch<k>.diff')
    ap.add_argument('--tag', default='', help='prefix for the kept id, e.g. w2')
    args = ap.parse_args()
    tiers = ['quick', 'thorough'] if args.tier == 'both' else [args.tier]
    checks = [c for c in args.checks.split(',') if c]
    jobs = []
    if args.recheck:
        for d in sorted(os.listdir(os.path.join(HERE, 'seeded'))):
            p = os.path.join(HERE, 'seeded', d)
            if args.items and not any(d.startswith(i) for i in args.items):
                continue
            if os.path.exists(os.path.join(p, 'patch.diff')):
                pid, k = d.split('-', 1)
                jobs.append((pid, k, os.path.join(p, 'patch.diff'), os.path.join(p, 'demo.py'), os.path.join(p, 'meta.json')))
    else:
        for it in args.items:
            pid, _, k = it.partition(':')
            ks = [k] if k else sorted(f[5:-5] for f in os.listdir(os.path.join(args.out, pid)) if f.startswith('patch') and f.endswith('.diff'))
            for k in ks:
                jobs.append((pid, args.tag + k, os.path.join(args.out, pid, 'patch%s.diff' % k), os.path.join(args.out, pid, 'demo%s.py' % k),
                             os.path.join(args.out, pid, 'meta%s.json' % k)))
    ev = os.path.join(HERE, 'evidence')
    bak = tempfile.mkdtemp(prefix='evbak-', dir='/dev/shm')
    for f in os.listdir(ev):
        shutil.copy(os.path.join(ev, f), bak)
    try:
        for j in jobs:
            r = evaluate(*j, tiers=tiers, checks=checks, keep=args.keep and not args.recheck)
            print(json.dumps(r, ensure_ascii=False))
            sys.stdout.flush()
    finally:
        for f in os.listdir(bak):
            shutil.copy(os.path.join(bak, f), ev)
        shutil.rmtree(bak, ignore_errors=True)


if __name__ == '__main__':
    main()
